//! C19 — fleet calls retry only transport failures, boundedly, and recover afterwards; broadcasts
//! address exactly the nodes carrying all requested tags.
//!
//! Stage "retry" (default, also "main"): a scripted FAKE node (raw sockets, frames through oracle.rs)
//! whose behaviour for the NEXT attempt is set from the verif-hooks probe `fleet.attempt` /
//! `async_fleet.attempt`. Outcome sequences are enumerated table-driven (all sequences of length
//! <= max_attempts+2 over an 8-symbol alphabet), each followed by a healthy phase. The verdict comes
//! from the attempt log (probe hits joined with what the node saw in that attempt), never from
//! elapsed time; time is only used to *downgrade* a candidate to a re-run.
//!
//! Stage "tags": every assignment of tag subsets to <= 4 nodes x every requested tag subset; the
//! fake nodes count what they received, so "addresses exactly" is judged on the node side too.

use crate::common::*;
use crate::oracle::{self, SpecHeader};
use repe::{AsyncFleet, Fleet, FleetOptions, Message, NodeConfig, RemoteResult, RepeError, RetryPolicy};
use serde_json::{Value, json};
use std::cell::RefCell;
use std::collections::{BTreeMap, BTreeSet, HashMap};
use std::io::{ErrorKind, Read, Write};
use std::net::{Shutdown, TcpListener, TcpStream};
use std::os::fd::{AsRawFd, FromRawFd, OwnedFd};
use std::sync::atomic::{AtomicBool, AtomicU64, AtomicUsize, Ordering};
use std::sync::{Arc, Mutex, MutexGuard, mpsc};
use std::time::{Duration, Instant};

const NODE_TIMEOUT: Duration = Duration::from_millis(150);
const RETRY_DELAY: Duration = Duration::from_millis(5);
const HEALTHY_CALLS: usize = 5;
const RECOVERY_WINDOW: usize = 3;
const NOTICE_WAIT: Duration = Duration::from_millis(1000);
const NODE_NAME: &str = "n0";
const CONC_CLOSE: &str = "/c19x/close/";
const CONC_RESET: &str = "/c19x/reset/";
const CONC_OK: &str = "/c19x/ok/";

// ------------------------------------------------------------------ outcome alphabet

#[derive(Clone, Copy, PartialEq, Eq, Hash, Debug, PartialOrd, Ord)]
enum Out {
    Refused,
    AcceptClose,
    IdleNoticed,
    IdleQuick,
    Silent,
    Malformed,
    AppErr,
    Success,
}

const ALPHA: [Out; 8] = [
    Out::Refused,
    Out::AcceptClose,
    Out::IdleNoticed,
    Out::IdleQuick,
    Out::Silent,
    Out::Malformed,
    Out::AppErr,
    Out::Success,
];

impl Out {
    fn name(self) -> &'static str {
        match self {
            Out::Refused => "refused",
            Out::AcceptClose => "accepted-then-closed",
            Out::IdleNoticed => "closed-while-idle(noticed)",
            Out::IdleQuick => "closed-while-idle(quick)",
            Out::Silent => "silent",
            Out::Malformed => "malformed",
            Out::AppErr => "app-error",
            Out::Success => "success",
        }
    }
    /// name used in signatures (the two closed-while-idle sub-variants share one)
    fn cause(self) -> &'static str {
        match self {
            Out::IdleNoticed | Out::IdleQuick => "closed-while-idle",
            o => o.name(),
        }
    }
    fn from_name(s: &str) -> Option<Out> {
        ALPHA.iter().copied().find(|o| o.name() == s)
    }
}

// ------------------------------------------------------------------ raw sockets

fn last_err() -> std::io::Error {
    std::io::Error::last_os_error()
}

/// A TCP socket bound to 127.0.0.1:`port` (0 = ephemeral) with SO_REUSEPORT; listening or not.
/// The non-listening one is the node's *placeholder*: it keeps the port reserved while the
/// listener is closed, so "refused" (RST to SYN) is deterministic and nobody else can grab the port.
fn mk_socket(port: u16, listen: bool) -> std::io::Result<(OwnedFd, u16)> {
    unsafe {
        let fd = libc::socket(libc::AF_INET, libc::SOCK_STREAM | libc::SOCK_CLOEXEC, 0);
        if fd < 0 {
            return Err(last_err());
        }
        let fd = OwnedFd::from_raw_fd(fd);
        let one: libc::c_int = 1;
        let mut opts = vec![libc::SO_REUSEPORT];
        if listen {
            opts.push(libc::SO_REUSEADDR);
        }
        for opt in opts {
            if libc::setsockopt(fd.as_raw_fd(), libc::SOL_SOCKET, opt, &one as *const _ as *const libc::c_void, 4) != 0 {
                return Err(last_err());
            }
        }
        let mut sa: libc::sockaddr_in = std::mem::zeroed();
        sa.sin_family = libc::AF_INET as libc::sa_family_t;
        sa.sin_port = port.to_be();
        sa.sin_addr.s_addr = u32::from_ne_bytes([127, 0, 0, 1]);
        let len = std::mem::size_of::<libc::sockaddr_in>() as libc::socklen_t;
        if libc::bind(fd.as_raw_fd(), &sa as *const _ as *const libc::sockaddr, len) != 0 {
            return Err(last_err());
        }
        if listen && libc::listen(fd.as_raw_fd(), 64) != 0 {
            return Err(last_err());
        }
        let mut sb: libc::sockaddr_in = std::mem::zeroed();
        let mut l2 = len;
        if libc::getsockname(fd.as_raw_fd(), &mut sb as *mut _ as *mut libc::sockaddr, &mut l2) != 0 {
            return Err(last_err());
        }
        Ok((fd, u16::from_be(sb.sin_port)))
    }
}

/// Close with RST (SO_LINGER 0): leaves no TIME_WAIT socket behind on either side.
fn rst_close(s: TcpStream) {
    let l = libc::linger { l_onoff: 1, l_linger: 0 };
    unsafe {
        libc::setsockopt(
            s.as_raw_fd(),
            libc::SOL_SOCKET,
            libc::SO_LINGER,
            &l as *const _ as *const libc::c_void,
            std::mem::size_of::<libc::linger>() as libc::socklen_t,
        );
    }
    drop(s);
}

// ------------------------------------------------------------------ fake node

#[derive(Clone, Debug, PartialEq)]
enum Ev {
    Accepted,
    Request { id: u64, path: String },
    RepliedOk,
    RepliedErr { code: u32 },
    RepliedGarbage,
    Ignored,
    ClosedOnRequest,
    KilledIdle { noticed: bool, quick: bool },
    PeerClosed,
    ListenerClosed,
    ListenerOpened,
    BadFrame,
    WriteFailed,
}

#[derive(Clone, Debug)]
struct NodeEv {
    attempt: usize,
    conn: u64,
    ev: Ev,
}

struct Conn {
    id: u64,
    s: TcpStream,
    buf: Vec<u8>,
    half_closed: bool,
    /// the client sent FIN (closed or shut down). The node keeps its side open until the case ends
    /// (a server that is slow to close): nothing the client can observe depends on it, and closing
    /// with RST at reset time leaves no TIME_WAIT socket on the client's ephemeral port. Answering
    /// the FIN with an immediate RST would NOT be neutral: it turns the client's next write error
    /// from EPIPE into ECONNRESET.
    peer_closed: bool,
    /// this connection once swallowed a request ("silent" outcome): it stays silent for good, like a connection stuck in a
    /// hung worker, while NEW connections are served normally. A client that keeps it cached is talking to nobody.
    wedged: bool,
    /// close this connection with RST instead of FIN (set by a request that asks for it)
    rst: bool,
}

struct NodeInner {
    name: String,
    port: u16,
    _placeholder: OwnedFd,
    listener: Option<TcpListener>,
    conns: Vec<Conn>,
    mode: Out,
    malformed_kind: u8,
    cur: usize,
    log: Vec<NodeEv>,
    next_conn: u64,
    harness_err: Option<String>,
    frames_in: u64,
}

fn err_code_for(path: &str) -> u32 {
    // every known error code can come back as a reply (the retryable-sounding ones included:
    // Timeout = 7, ResourceExhausted = 8); none of them is a transport failure
    const CODES: [u32; 10] = [4096, 6, 8, 7, 9, 1, 2, 3, 4, 5];
    CODES[(hash_of(&path) % 10) as usize]
}

fn err_text_for(path: &str) -> String {
    format!("scripted application error for {path}")
}

impl NodeInner {
    fn ev(&mut self, conn: u64, ev: Ev) {
        let attempt = self.cur;
        self.log.push(NodeEv { attempt, conn, ev });
    }

    fn open_listener(&mut self) {
        if self.listener.is_some() {
            return;
        }
        match mk_socket(self.port, true) {
            Ok((fd, _)) => {
                let l = TcpListener::from(fd);
                if let Err(e) = l.set_nonblocking(true) {
                    self.harness_err = Some(format!("listener set_nonblocking: {e}"));
                }
                self.listener = Some(l);
                self.ev(0, Ev::ListenerOpened);
            }
            Err(e) => self.harness_err = Some(format!("re-listen on port {}: {e}", self.port)),
        }
    }

    fn close_listener(&mut self) {
        if self.listener.take().is_some() {
            self.ev(0, Ev::ListenerClosed);
        }
    }

    /// One non-blocking sweep: accept, read, handle complete request frames per the current mode.
    fn poll(&mut self) {
        if let Some(l) = &self.listener {
            let mut fresh = vec![];
            loop {
                match l.accept() {
                    Ok((s, _)) => fresh.push(s),
                    Err(e) if e.kind() == ErrorKind::Interrupted => continue,
                    Err(_) => break,
                }
            }
            for s in fresh {
                let _ = s.set_nonblocking(true);
                let _ = s.set_nodelay(true);
                self.next_conn += 1;
                let id = self.next_conn;
                self.conns.push(Conn { id, s, buf: vec![], half_closed: false, peer_closed: false, wedged: false, rst: false });
                self.ev(id, Ev::Accepted);
            }
        }
        let conns = std::mem::take(&mut self.conns);
        for mut c in conns {
            if c.peer_closed {
                self.conns.push(c);
                continue;
            }
            let mut eof = false;
            let mut tmp = [0u8; 4096];
            loop {
                match c.s.read(&mut tmp) {
                    Ok(0) => {
                        eof = true;
                        break;
                    }
                    Ok(n) => c.buf.extend_from_slice(&tmp[..n]),
                    Err(e) if e.kind() == ErrorKind::WouldBlock => break,
                    Err(e) if e.kind() == ErrorKind::Interrupted => continue,
                    Err(_) => {
                        eof = true;
                        break;
                    }
                }
            }
            let mut keep = true;
            // complete request frames
            while keep && !c.half_closed && c.buf.len() >= oracle::HDR {
                let h = SpecHeader::decode(&c.buf);
                if !h.consistent() || h.length > (1 << 20) {
                    self.ev(c.id, Ev::BadFrame);
                    keep = false;
                    break;
                }
                let total = h.length as usize;
                if c.buf.len() < total {
                    break;
                }
                let frame: Vec<u8> = c.buf.drain(..total).collect();
                let q = &frame[oracle::HDR..oracle::HDR + h.query_length as usize];
                let b = &frame[oracle::HDR + h.query_length as usize..];
                self.frames_in += 1;
                keep = self.handle(&mut c, &h, q, b);
            }
            if !keep {
                if c.rst {
                    rst_close(c.s);
                    continue;
                }
                let _ = c.s.shutdown(Shutdown::Both);
                drop(c);
                continue;
            }
            if eof {
                if c.half_closed {
                    // we sent FIN first and the client answered by closing: it noticed
                    self.ev(c.id, Ev::KilledIdle { noticed: true, quick: false });
                    drop(c);
                } else {
                    self.ev(c.id, Ev::PeerClosed);
                    c.peer_closed = true;
                    self.conns.push(c);
                }
                continue;
            }
            self.conns.push(c);
        }
    }

    /// React to one request frame. Returns false when the connection is to be closed.
    fn handle(&mut self, c: &mut Conn, h: &SpecHeader, q: &[u8], b: &[u8]) -> bool {
        let path = String::from_utf8_lossy(q).into_owned();
        self.ev(c.id, Ev::Request { id: h.id, path: path.clone() });
        if h.notify != 0 {
            return true;
        }
        if c.wedged {
            self.ev(c.id, Ev::Ignored);
            return true;
        }
        // outcomes that travel with the request (concurrent-use part: several callers share the node, so a per-attempt mode
        // would not say whose request it applies to): read the request, then close (FIN) or reset (RST) without a reply
        if path.starts_with(CONC_CLOSE) || path.starts_with(CONC_RESET) {
            self.ev(c.id, Ev::ClosedOnRequest);
            c.rst = path.starts_with(CONC_RESET);
            return false;
        }
        let base = SpecHeader { spec: oracle::SPEC, version: 1, id: h.id, query_format: h.query_format, ..Default::default() };
        let (bytes, ev) = match self.mode {
            Out::Success | Out::IdleNoticed | Out::IdleQuick => {
                let body = json!({"node": self.name, "path": path, "body": String::from_utf8_lossy(b), "conn": c.id});
                (oracle::frame(SpecHeader { body_format: 2, ..base }, q, body.to_string().as_bytes()), Ev::RepliedOk)
            }
            Out::AppErr => {
                let code = err_code_for(&path);
                (oracle::frame(SpecHeader { body_format: 3, ec: code, ..base }, q, err_text_for(&path).as_bytes()), Ev::RepliedErr { code })
            }
            Out::Malformed => {
                let bytes = match self.malformed_kind {
                    // a complete, consistent frame that says version 2
                    1 => oracle::frame(SpecHeader { version: 2, body_format: 2, ..base }, q, b"{\"v\":2}"),
                    // a valid JSON-typed reply whose body is not JSON
                    2 => oracle::frame(SpecHeader { body_format: 2, ..base }, q, b"{not json"),
                    // a consistent header declaring a 2^62-byte body (nothing can follow): the client must refuse to allocate it
                    3 => SpecHeader { body_format: 2, query_length: q.len() as u64, body_length: 1 << 62, length: 48 + q.len() as u64 + (1 << 62), ..base }.encode().iter().copied().chain(q.iter().copied()).collect(),
                    // a header whose total length disagrees with its parts
                    4 => SpecHeader { body_format: 2, query_length: q.len() as u64, body_length: 7, length: 48 + q.len() as u64 + 8, ..base }.encode().iter().copied().chain(q.iter().copied()).chain(*b"1234567").collect(),
                    // a consistent header declaring a query of 2^63 bytes
                    5 => SpecHeader { body_format: 2, query_length: 1 << 63, body_length: 0, length: 48 + (1u64 << 63), ..base }.encode().to_vec(),
                    // 48 bytes that are not a REPE header (bad magic)
                    _ => SpecHeader { spec: 0xDEAD, length: 48, ..base }.encode().to_vec(),
                };
                (bytes, Ev::RepliedGarbage)
            }
            Out::Silent => {
                self.ev(c.id, Ev::Ignored);
                c.wedged = true;
                return true;
            }
            Out::AcceptClose | Out::Refused => {
                self.ev(c.id, Ev::ClosedOnRequest);
                return false;
            }
        };
        match c.s.write_all(&bytes) {
            Ok(()) => self.ev(c.id, ev),
            Err(_) => self.ev(c.id, Ev::WriteFailed),
        }
        true
    }
}

struct FakeNode {
    inner: Arc<Mutex<NodeInner>>,
    stop: Arc<AtomicBool>,
    th: Option<std::thread::JoinHandle<()>>,
    port: u16,
}

impl FakeNode {
    fn start(name: &str) -> Result<FakeNode, String> {
        let (ph, port) = mk_socket(0, false).map_err(|e| format!("placeholder socket: {e}"))?;
        let mut inner = NodeInner {
            name: name.to_string(),
            port,
            _placeholder: ph,
            listener: None,
            conns: vec![],
            mode: Out::Success,
            malformed_kind: 0,
            cur: usize::MAX,
            log: vec![],
            next_conn: 0,
            harness_err: None,
            frames_in: 0,
        };
        inner.open_listener();
        if let Some(e) = inner.harness_err.take() {
            return Err(e);
        }
        let inner = Arc::new(Mutex::new(inner));
        let stop = Arc::new(AtomicBool::new(false));
        let (i2, s2) = (inner.clone(), stop.clone());
        let th = std::thread::spawn(move || {
            while !s2.load(Ordering::Relaxed) {
                {
                    let mut g = i2.lock().unwrap_or_else(|e| e.into_inner());
                    g.poll();
                }
                std::thread::sleep(Duration::from_micros(250));
            }
        });
        Ok(FakeNode { inner, stop, th: Some(th), port })
    }

    fn lock(&self) -> MutexGuard<'_, NodeInner> {
        self.inner.lock().unwrap_or_else(|e| e.into_inner())
    }

    /// Forget the previous case: reset every connection, clear the log, listen, serve normally.
    fn reset(&self, malformed_kind: u8) {
        let mut g = self.lock();
        g.poll();
        for c in std::mem::take(&mut g.conns) {
            rst_close(c.s);
        }
        g.mode = Out::Success;
        g.malformed_kind = malformed_kind;
        g.cur = usize::MAX;
        g.open_listener();
        g.log.clear();
    }

    /// Set the behaviour for the attempt that is about to start. Synchronous: when this returns the
    /// listener is open/closed as scripted and idle connections are dead as scripted.
    fn set_mode(&self, out: Out, attempt: usize) {
        let mut g = self.lock();
        g.poll(); // whatever is still in flight belongs to the previous attempt
        g.cur = attempt;
        g.mode = out;
        if out == Out::Refused {
            g.close_listener();
        } else {
            g.open_listener();
        }
        match out {
            Out::IdleQuick => {
                let (gone, live): (Vec<Conn>, Vec<Conn>) = std::mem::take(&mut g.conns).into_iter().partition(|c| c.peer_closed);
                g.conns = gone;
                for c in live {
                    let _ = c.s.shutdown(Shutdown::Both);
                    g.ev(c.id, Ev::KilledIdle { noticed: false, quick: true });
                }
            }
            Out::IdleNoticed => {
                let mut any = false;
                for c in g.conns.iter_mut().filter(|c| !c.peer_closed) {
                    // FIN now; the rest of the close follows once the client reacted (its reader saw
                    // EOF and shut the socket down) — indistinguishable, for the client, from a full close
                    let _ = c.s.shutdown(Shutdown::Write);
                    c.half_closed = true;
                    any = true;
                }
                if any {
                    let deadline = Instant::now() + NOTICE_WAIT;
                    loop {
                        g.poll();
                        if !g.conns.iter().any(|c| c.half_closed) {
                            break;
                        }
                        if Instant::now() > deadline {
                            let (dead, live): (Vec<Conn>, Vec<Conn>) = std::mem::take(&mut g.conns).into_iter().partition(|c| c.half_closed);
                            g.conns = live;
                            for c in dead {
                                let _ = c.s.shutdown(Shutdown::Both);
                                g.ev(c.id, Ev::KilledIdle { noticed: false, quick: false });
                            }
                            break;
                        }
                        drop(g);
                        std::thread::sleep(Duration::from_micros(100));
                        g = self.lock();
                    }
                }
            }
            _ => {}
        }
    }

    fn take_log(&self) -> (Vec<NodeEv>, Option<String>, u64) {
        let mut g = self.lock();
        g.poll();
        let f = g.frames_in;
        g.frames_in = 0;
        (std::mem::take(&mut g.log), g.harness_err.take(), f)
    }
}

impl Drop for FakeNode {
    fn drop(&mut self) {
        self.stop.store(true, Ordering::Relaxed);
        if let Some(t) = self.th.take() {
            let _ = t.join();
        }
        let mut g = self.lock();
        for c in std::mem::take(&mut g.conns) {
            rst_close(c.s);
        }
    }
}

// ------------------------------------------------------------------ probe plumbing

struct AttemptRec {
    call: usize,
    lib_idx: u64,
    scripted: Option<Out>,
    at: Instant,
}

struct CtxState {
    cur_call: usize,
    attempts: Vec<AttemptRec>,
}

struct CaseCtx {
    node: Arc<FakeNode>,
    script: Vec<Out>,
    point: &'static str,
    st: Mutex<CtxState>,
}

thread_local! {
    static CTX: RefCell<Option<Arc<CaseCtx>>> = const { RefCell::new(None) };
}

static PROBE_OUTSIDE: AtomicU64 = AtomicU64::new(0);
static PROBE_WRONG_POINT: AtomicU64 = AtomicU64::new(0);

fn install_probe() {
    repe::verif_hooks::set_probe(Some(Arc::new(|point: &'static str, id: u64| {
        if point != "fleet.attempt" && point != "async_fleet.attempt" {
            return;
        }
        let ctx = CTX.with(|c| c.borrow().clone());
        let Some(ctx) = ctx else {
            PROBE_OUTSIDE.fetch_add(1, Ordering::Relaxed);
            return;
        };
        if point != ctx.point {
            PROBE_WRONG_POINT.fetch_add(1, Ordering::Relaxed);
        }
        let (k, scripted) = {
            let mut st = ctx.st.lock().unwrap_or_else(|e| e.into_inner());
            let k = st.attempts.len();
            let scripted = ctx.script.get(k).copied();
            let call = st.cur_call;
            st.attempts.push(AttemptRec { call, lib_idx: id, scripted, at: Instant::now() });
            (k, scripted)
        };
        ctx.node.set_mode(scripted.unwrap_or(Out::Success), k);
    })));
}

// ------------------------------------------------------------------ the fleets under test

#[derive(Clone, Copy, PartialEq, Eq, Hash, Debug)]
enum Kind {
    Sync,
    Async,
}

impl Kind {
    fn name(self) -> &'static str {
        match self {
            Kind::Sync => "fleet",
            Kind::Async => "async_fleet",
        }
    }
    fn point(self) -> &'static str {
        match self {
            Kind::Sync => "fleet.attempt",
            Kind::Async => "async_fleet.attempt",
        }
    }
}

#[derive(Clone, Copy, PartialEq, Eq, Hash, Debug)]
enum Api {
    /// call_json(node, path, Some(params))
    Json,
    /// call_json(node, path, None)
    JsonNoParams,
    /// call_message(node, path)
    Message,
}

impl Api {
    fn name(self) -> &'static str {
        match self {
            Api::Json => "call_json",
            Api::JsonNoParams => "call_json(no params)",
            Api::Message => "call_message",
        }
    }
    fn from_name(s: &str) -> Api {
        match s {
            "call_message" => Api::Message,
            "call_json(no params)" => Api::JsonNoParams,
            _ => Api::Json,
        }
    }
}

#[derive(Clone, Debug)]
enum Res {
    Value { good: bool, text: String },
    Server { code: u32, message: String },
    Io { kind: String, text: String },
    Other { variant: String, text: String },
    Fleet(String),
}

impl Res {
    fn short(&self) -> String {
        match self {
            Res::Value { good: true, .. } => "value(ok)".into(),
            Res::Value { good: false, .. } => "value(WRONG)".into(),
            Res::Server { code, .. } => format!("ServerError({code})"),
            Res::Io { kind, .. } => format!("Io({kind})"),
            Res::Other { variant, .. } => variant.clone(),
            Res::Fleet(_) => "FleetError".into(),
        }
    }
    fn long(&self) -> String {
        match self {
            Res::Value { good, text } => format!("value(good={good}) {}", trunc(text, 80)),
            Res::Server { code, message } => format!("ServerError code={code} '{}'", trunc(message, 60)),
            Res::Io { kind, text } => format!("Io({kind}) '{}'", trunc(text, 70)),
            Res::Other { variant, text } => format!("{variant} '{}'", trunc(text, 70)),
            Res::Fleet(t) => format!("FleetError '{}'", trunc(t, 70)),
        }
    }
    fn is_ok(&self) -> bool {
        matches!(self, Res::Value { good: true, .. })
    }
    fn io_kind(&self) -> Option<&str> {
        match self {
            Res::Io { kind, .. } => Some(kind),
            _ => None,
        }
    }
}

fn classify_err(e: &RepeError) -> Res {
    match e {
        RepeError::Io(io) => Res::Io { kind: format!("{:?}", io.kind()), text: io.to_string() },
        RepeError::ServerError { code, message } => Res::Server { code: u32::from(*code), message: message.clone() },
        other => {
            let d = format!("{other:?}");
            let variant = d.split(|c: char| c == '(' || c == '{' || c == ' ').next().unwrap_or("?").to_string();
            Res::Other { variant, text: other.to_string() }
        }
    }
}

fn good_value(v: &Value, node: &str, path: &str) -> bool {
    v["node"] == node && v["path"] == path
}

fn res_of_json(r: RemoteResult<Value>, node: &str, path: &str) -> Res {
    match (&r.value, &r.error) {
        (Some(v), None) => Res::Value { good: r.node == node && good_value(v, node, path), text: v.to_string() },
        (_, Some(e)) => classify_err(e),
        (None, None) => Res::Other { variant: "EmptyRemoteResult".into(), text: "neither value nor error".into() },
    }
}

/// `entry` is the fleet's node name, `listener` the name under which the fake node behind it answers.
fn res_of_json_via(r: RemoteResult<Value>, entry: &str, listener: &str, path: &str) -> Res {
    match (&r.value, &r.error) {
        (Some(v), None) => Res::Value { good: r.node == entry && good_value(v, listener, path), text: v.to_string() },
        (_, Some(e)) => classify_err(e),
        (None, None) => Res::Other { variant: "EmptyRemoteResult".into(), text: "neither value nor error".into() },
    }
}

fn res_of_msg(r: RemoteResult<Message>, node: &str, path: &str) -> Res {
    match (&r.value, &r.error) {
        (Some(m), None) => {
            let sh = SpecHeader::from_repe(&m.header);
            let v: Value = serde_json::from_slice(&m.body).unwrap_or(Value::Null);
            let good = r.node == node && sh.ec == 0 && sh.body_format == 2 && m.query == path.as_bytes() && good_value(&v, node, path);
            Res::Value { good, text: format!("ec={} body={}", sh.ec, String::from_utf8_lossy(&m.body)) }
        }
        (_, Some(e)) => classify_err(e),
        (None, None) => Res::Other { variant: "EmptyRemoteResult".into(), text: "neither value nor error".into() },
    }
}

enum AnyFleet {
    Sync(Fleet),
    Async(AsyncFleet),
}

impl AnyFleet {
    fn call(&self, rt: &tokio::runtime::Runtime, api: Api, node: &str, path: &str, params: &Value) -> Res {
        match (self, api) {
            (AnyFleet::Sync(f), Api::Json) => f.call_json(node, path, Some(params)).map(|r| res_of_json(r, node, path)).unwrap_or_else(|e| Res::Fleet(e.to_string())),
            (AnyFleet::Sync(f), Api::JsonNoParams) => f.call_json(node, path, None).map(|r| res_of_json(r, node, path)).unwrap_or_else(|e| Res::Fleet(e.to_string())),
            (AnyFleet::Sync(f), Api::Message) => f.call_message(node, path).map(|r| res_of_msg(r, node, path)).unwrap_or_else(|e| Res::Fleet(e.to_string())),
            (AnyFleet::Async(f), Api::Json) => rt.block_on(f.call_json(node, path, Some(params))).map(|r| res_of_json(r, node, path)).unwrap_or_else(|e| Res::Fleet(e.to_string())),
            (AnyFleet::Async(f), Api::JsonNoParams) => rt.block_on(f.call_json(node, path, None)).map(|r| res_of_json(r, node, path)).unwrap_or_else(|e| Res::Fleet(e.to_string())),
            (AnyFleet::Async(f), Api::Message) => rt.block_on(f.call_message(node, path)).map(|r| res_of_msg(r, node, path)).unwrap_or_else(|e| Res::Fleet(e.to_string())),
        }
    }
    fn is_connected(&self, rt: &tokio::runtime::Runtime, node: &str) -> Option<bool> {
        match self {
            AnyFleet::Sync(f) => f.is_connected(node).ok(),
            AnyFleet::Async(f) => rt.block_on(f.is_connected(node)).ok(),
        }
    }
    /// One read-only look at the fleet, as a dashboard or supervisor thread would take it.
    fn observe(&self, rt: &tokio::runtime::Runtime, which: u64) -> usize {
        match self {
            AnyFleet::Sync(f) => match which % 5 {
                0 => f.is_connected(NODE_NAME).map(|b| b as usize).unwrap_or(0),
                1 => f.connected_nodes().len(),
                2 => f.to_string().len(),
                3 => f.keys().len(),
                _ => f.is_connected_all() as usize,
            },
            AnyFleet::Async(f) => match which % 4 {
                0 => rt.block_on(f.is_connected(NODE_NAME)).map(|b| b as usize).unwrap_or(0),
                1 => rt.block_on(f.connected_nodes()).len(),
                2 => rt.block_on(f.keys()).len(),
                _ => rt.block_on(f.is_connected_all()) as usize,
            },
        }
    }
    fn health(&self, rt: &tokio::runtime::Runtime, path: &str) -> usize {
        match self {
            AnyFleet::Sync(f) => f.health_check(path).len(),
            AnyFleet::Async(f) => rt.block_on(f.health_check(path)).len(),
        }
    }
}

fn node_config(name: &str, port: u16, tags: &[&str], timeout: Duration) -> NodeConfig {
    NodeConfig::new("127.0.0.1", port)
        .and_then(|c| c.with_name(name))
        .and_then(|c| c.with_timeout(timeout))
        .map(|c| c.with_tags(tags.iter().copied()))
        .expect("node config")
}

// ------------------------------------------------------------------ one retry case

#[derive(Clone, Debug, Hash, PartialEq, Eq)]
struct CaseSpec {
    kind: Kind,
    m: usize,
    script: Vec<Out>,
    api: Api,
    malformed_kind: u8,
}

impl CaseSpec {
    fn replay(&self) -> Value {
        json!({"part": "retry", "kind": self.kind.name(), "max_attempts": self.m,
               "script": self.script.iter().map(|o| o.name()).collect::<Vec<_>>(),
               "api": self.api.name(), "malformed_kind": self.malformed_kind,
               "node_timeout_ms": NODE_TIMEOUT.as_millis() as u64, "retry_delay_ms": RETRY_DELAY.as_millis() as u64,
               "healthy_calls": HEALTHY_CALLS})
    }
    fn from_replay(v: &Value) -> Option<CaseSpec> {
        Some(CaseSpec {
            kind: if v["kind"] == "async_fleet" { Kind::Async } else { Kind::Sync },
            m: v["max_attempts"].as_u64()? as usize,
            script: v["script"].as_array()?.iter().map(|s| Out::from_name(s.as_str().unwrap_or(""))).collect::<Option<Vec<_>>>()?,
            api: Api::from_name(v["api"].as_str().unwrap_or("")),
            malformed_kind: v["malformed_kind"].as_u64().unwrap_or(0) as u8,
        })
    }
    fn describe(&self) -> String {
        format!(
            "{} max_attempts={} {} script=[{}]{}",
            self.kind.name(),
            self.m,
            self.api.name(),
            self.script.iter().map(|o| o.name()).collect::<Vec<_>>().join(", "),
            if self.malformed_kind != 0 { format!(" malformed_kind={}", self.malformed_kind) } else { String::new() }
        )
    }
}

struct CallObs {
    healthy: bool,
    path: String,
    res: Res,
    connected_after: Option<bool>,
    ended: Instant,
}

struct CaseRun {
    spec: CaseSpec,
    calls: Vec<CallObs>,
    attempts: Vec<AttemptRec>,
    node_log: Vec<NodeEv>,
    frames_in: u64,
    harness_err: Option<String>,
}

static TOKEN: AtomicU64 = AtomicU64::new(1);

fn run_case(spec: &CaseSpec, node: &Arc<FakeNode>, rt: &tokio::runtime::Runtime) -> CaseRun {
    node.reset(spec.malformed_kind);
    let cfg = node_config(NODE_NAME, node.port, &[], NODE_TIMEOUT);
    let opts = FleetOptions { default_timeout: NODE_TIMEOUT, retry_policy: RetryPolicy { max_attempts: spec.m, delay: RETRY_DELAY } };
    let fleet = match spec.kind {
        Kind::Sync => AnyFleet::Sync(Fleet::with_options(vec![cfg], opts).expect("fleet")),
        Kind::Async => AnyFleet::Async(AsyncFleet::with_options(vec![cfg], opts).expect("async fleet")),
    };
    let ctx = Arc::new(CaseCtx {
        node: node.clone(),
        script: spec.script.clone(),
        point: spec.kind.point(),
        st: Mutex::new(CtxState { cur_call: 0, attempts: vec![] }),
    });
    CTX.with(|c| *c.borrow_mut() = Some(ctx.clone()));
    let mut calls: Vec<CallObs> = vec![];
    let one = |healthy: bool, calls: &mut Vec<CallObs>| {
        let callno = calls.len();
        ctx.st.lock().unwrap_or_else(|e| e.into_inner()).cur_call = callno;
        let path = format!("/c19/{}", TOKEN.fetch_add(1, Ordering::Relaxed));
        let params = json!({"tok": path, "call": callno});
        let res = fleet.call(rt, spec.api, NODE_NAME, &path, &params);
        let ended = Instant::now();
        let connected_after = fleet.is_connected(rt, NODE_NAME);
        calls.push(CallObs { healthy, path, res, connected_after, ended });
    };
    // fault phase: keep calling until every scripted outcome has been consumed by an attempt
    let consumed = |ctx: &CaseCtx| ctx.st.lock().unwrap_or_else(|e| e.into_inner()).attempts.len();
    while consumed(&ctx) < spec.script.len() && calls.len() < spec.script.len() + 1 {
        one(false, &mut calls);
    }
    for _ in 0..HEALTHY_CALLS {
        one(true, &mut calls);
    }
    CTX.with(|c| *c.borrow_mut() = None);
    drop(fleet);
    let (node_log, harness_err, frames_in) = node.take_log();
    let attempts = std::mem::take(&mut ctx.st.lock().unwrap_or_else(|e| e.into_inner()).attempts);
    CaseRun { spec: spec.clone(), calls, attempts, node_log, frames_in, harness_err }
}

// ------------------------------------------------------------------ the oracle

#[derive(Default, Clone)]
struct AttClass {
    requests: u32,
    accepted: u32,
    ok: bool,
    err: Option<u32>,
    garbage: bool,
    ignored: bool,
    closed_on_req: bool,
    killed_noticed: u32,
    killed_unnoticed: u32,
    write_failed: bool,
    peer_closed: u32,
}

impl AttClass {
    fn name(&self) -> &'static str {
        if self.ok {
            "replied-ok"
        } else if self.err.is_some() {
            "replied-app-error"
        } else if self.garbage {
            "malformed-reply"
        } else if self.ignored {
            "silent"
        } else if self.closed_on_req {
            "closed-on-request"
        } else if self.requests > 0 {
            "request-unanswered"
        } else {
            "no-request"
        }
    }
    /// node-side activity that shows the client reached the node, or the node acting on a live connection
    fn contact(&self) -> bool {
        self.requests > 0 || self.accepted > 0 || self.killed_noticed > 0 || self.killed_unnoticed > 0
    }
}

struct Finding {
    sig: String,
    detail: String,
}

#[derive(Default)]
struct Verdict {
    findings: Vec<Finding>,
    suspect: Vec<String>,
    inconclusive: Vec<String>,
    stats: BTreeMap<String, u64>,
    recovered: bool,
}

fn stat(v: &mut Verdict, k: impl Into<String>) {
    *v.stats.entry(k.into()).or_insert(0) += 1;
}

fn render(run: &CaseRun, cls: &[AttClass]) -> String {
    let mut s = format!("{} | ", run.spec.describe());
    for (ci, c) in run.calls.iter().enumerate() {
        let atts: Vec<String> = run
            .attempts
            .iter()
            .enumerate()
            .filter(|(_, a)| a.call == ci)
            .map(|(k, a)| {
                let cl = &cls[k];
                let mut extra = String::new();
                if cl.killed_noticed > 0 {
                    extra.push_str(&format!(", node killed {} idle conn, client's reader noticed", cl.killed_noticed));
                }
                if cl.killed_unnoticed > 0 {
                    extra.push_str(&format!(", node killed {} idle conn", cl.killed_unnoticed));
                }
                if cl.accepted > 0 {
                    extra.push_str(", new connection");
                }
                format!("#{}:{}→{}{}", a.lib_idx, a.scripted.map(|o| o.name()).unwrap_or("healthy"), cl.name(), extra)
            })
            .collect();
        s.push_str(&format!(
            "{}call{} [{}] ⇒ {} is_connected={} ; ",
            if c.healthy { "HEALTHY-" } else { "" },
            ci,
            atts.join(" "),
            c.res.long(),
            c.connected_after.map(|b| b.to_string()).unwrap_or("?".into())
        ));
    }
    trunc(&s, 2400)
}

fn transport_kinds_after_close() -> &'static [&'static str] {
    &["UnexpectedEof", "ConnectionReset", "ConnectionAborted", "BrokenPipe", "NotConnected"]
}

fn evaluate(run: &CaseRun, strict: bool) -> Verdict {
    let mut v = Verdict::default();
    let kind = run.spec.kind.name();
    let m = run.spec.m;
    if let Some(e) = &run.harness_err {
        v.inconclusive.push(format!("fake node trouble: {e}"));
        return v;
    }
    let n = run.attempts.len();
    let mut cls = vec![AttClass::default(); n];
    for e in &run.node_log {
        if e.attempt >= n {
            continue;
        }
        let c = &mut cls[e.attempt];
        match &e.ev {
            Ev::Accepted => c.accepted += 1,
            Ev::Request { .. } => c.requests += 1,
            Ev::RepliedOk => c.ok = true,
            Ev::RepliedErr { code } => c.err = Some(*code),
            Ev::RepliedGarbage => c.garbage = true,
            Ev::Ignored => c.ignored = true,
            Ev::ClosedOnRequest => c.closed_on_req = true,
            Ev::KilledIdle { noticed: true, .. } => c.killed_noticed += 1,
            Ev::KilledIdle { noticed: false, .. } => c.killed_unnoticed += 1,
            Ev::WriteFailed => c.write_failed = true,
            Ev::PeerClosed => c.peer_closed += 1,
            Ev::BadFrame => v.inconclusive.push("fake node received an inconsistent request frame".into()),
            Ev::ListenerClosed | Ev::ListenerOpened => {}
        }
    }
    if !v.inconclusive.is_empty() {
        return v;
    }
    let timeout = NODE_TIMEOUT;
    // how long attempt k lasted (until the next probe hit or the end of its call)
    let dur = |k: usize| -> Duration {
        let a = &run.attempts[k];
        let end = match run.attempts.get(k + 1) {
            Some(b) if b.call == a.call => b.at,
            _ => run.calls[a.call].ended,
        };
        end.saturating_duration_since(a.at)
    };
    let detail = |what: &str| format!("{what} — {}", render(run, &cls));
    let cand = |v: &mut Verdict, timing: bool, sig: String, what: &str| {
        if timing && !strict {
            v.suspect.push(format!("{sig}: {what}"));
        } else {
            v.findings.push(Finding { sig, detail: detail(what) });
        }
    };

    for (k, c) in cls.iter().enumerate() {
        stat(&mut v, format!("attempts_scripted:{}", run.attempts[k].scripted.map(|o| o.name()).unwrap_or("healthy")));
        stat(&mut v, format!("attempt_class:{}", c.name()));
        if c.requests > 1 {
            // a request processed in a later attempt's window: the machine stalled
            if !strict {
                v.suspect.push(format!("{} requests reached the node within one attempt window", c.requests));
            } else {
                v.inconclusive.push("several requests within one attempt window".into());
            }
        }
        if c.write_failed {
            v.inconclusive.push("fake node could not write its reply".into());
        }
        v.stats.entry("idle_kill_noticed".into()).and_modify(|x| *x += c.killed_noticed as u64).or_insert(c.killed_noticed as u64);
        v.stats.entry("idle_kill_unnoticed".into()).and_modify(|x| *x += c.killed_unnoticed as u64).or_insert(c.killed_unnoticed as u64);
    }

    for (ci, call) in run.calls.iter().enumerate() {
        let ks: Vec<usize> = (0..n).filter(|&k| run.attempts[k].call == ci).collect();
        stat(&mut v, "calls");
        if ks.is_empty() {
            v.inconclusive.push(format!("probe {} never fired during a call (hook not reached)", run.spec.kind.point()));
            continue;
        }
        let t = ks.len();
        *v.stats.entry("attempts_probed".into()).or_insert(0) += t as u64;
        for (i, &k) in ks.iter().enumerate() {
            if run.attempts[k].lib_idx != i as u64 {
                v.inconclusive.push(format!("attempt indices reported by the probe are not 0,1,2.. (got {} at position {i})", run.attempts[k].lib_idx));
            }
        }
        // (1) bound
        if t > m {
            cand(&mut v, false, format!("C19:too-many-attempts:{kind}"), &format!("call {ci} made {t} attempts with max_attempts={m}"));
        }
        // (2) an attempt only after a transport-level failure of the previous one
        for w in ks.windows(2) {
            let c = &cls[w[0]];
            let late = dur(w[0]) + Duration::from_millis(10) >= timeout;
            if c.ok {
                cand(&mut v, late, format!("C19:retry-after-reply:{kind}:success"), &format!("call {ci}: another attempt was made although the node had answered attempt #{} successfully", run.attempts[w[0]].lib_idx));
            } else if c.err.is_some() {
                cand(&mut v, late, format!("C19:retry-after-reply:{kind}:app-error"), &format!("call {ci}: another attempt was made although the node had answered attempt #{} with an application error", run.attempts[w[0]].lib_idx));
            } else if c.garbage {
                // the node DID answer (with bytes that are not a usable reply): that is not a transport-level failure
                stat(&mut v, "malformed_reply_then_retried");
                cand(&mut v, late, format!("C19:retry-after-reply:{kind}:malformed"), &format!("call {ci}: another attempt was made although the node had answered attempt #{} (with a malformed reply, malformed_kind {}); retries are for transport-level failures only", run.attempts[w[0]].lib_idx, run.spec.malformed_kind));
            }
            stat(&mut v, format!("retried_after:{}", c.name()));
        }
        // evidence: what an attempt on a connection the node had just killed turned into
        for (i, &k) in ks.iter().enumerate() {
            let c = &cls[k];
            if c.killed_noticed + c.killed_unnoticed > 0 {
                let how = if c.killed_noticed > 0 { "noticed" } else { "not-noticed-by-handshake" };
                let then = if i + 1 < t { "retried".to_string() } else { call.res.short() };
                stat(&mut v, format!("attempt_on_killed_idle_conn({how})→{then}"));
            }
        }
        // (3) the reported result is the reply, else the last transport error
        let last = &cls[*ks.last().unwrap()];
        let last_late = dur(*ks.last().unwrap()) + Duration::from_millis(10) >= timeout;
        stat(&mut v, format!("result:{}→{}", last.name(), call.res.short()));
        if t < m && !last.ok && last.err.is_none() {
            stat(&mut v, format!("gave_up_with_attempts_left:{}→{}", last.name(), call.res.short()));
            if last.garbage {
                stat(&mut v, "malformed_reply_not_retried");
            }
        }
        let timed_out = call.res.io_kind() == Some("TimedOut");
        if last.ok {
            if !call.res.is_ok() {
                cand(&mut v, timed_out && last_late, format!("C19:reply-not-reported:{kind}:success"), &format!("call {ci}: the node answered the last attempt successfully but the call reported {}", call.res.long()));
            }
        } else if let Some(code) = last.err {
            let want_msg = err_text_for(&call.path);
            let okay = matches!(&call.res, Res::Server { code: c2, message } if *c2 == code && *message == want_msg);
            if !okay {
                cand(&mut v, timed_out && last_late, format!("C19:reply-not-reported:{kind}:app-error"), &format!("call {ci}: the node answered the last attempt with application error {code} '{want_msg}' but the call reported {}", call.res.long()));
            }
        } else if last.garbage {
            // what a malformed reply turns into is not pinned; it must not be a *server* error
            if let Res::Server { .. } = call.res {
                cand(&mut v, false, format!("C19:server-error-without-reply:{kind}"), &format!("call {ci} reported a server error but the node sent no error reply"));
            }
        } else {
            match &call.res {
                Res::Value { .. } => cand(&mut v, false, format!("C19:value-without-reply:{kind}"), &format!("call {ci} reported a value but the node sent no reply in its last attempt")),
                Res::Server { .. } => cand(&mut v, false, format!("C19:server-error-without-reply:{kind}"), &format!("call {ci} reported a server error but the node sent no error reply")),
                Res::Fleet(e) => v.inconclusive.push(format!("FleetError from a call: {e}")),
                res => {
                    // the LAST transport error: its kind must fit what the last attempt ran into
                    let k = res.io_kind();
                    let fits = if last.ignored {
                        k == Some("TimedOut")
                    } else if last.closed_on_req {
                        k.map(|k| transport_kinds_after_close().contains(&k)).unwrap_or(false)
                    } else if last.requests == 0 && t > 1 && run.attempts[*ks.last().unwrap()].scripted == Some(Out::Refused) && last.killed_noticed + last.killed_unnoticed == 0 {
                        // a retry (client was discarded) against a port that is not listening
                        k == Some("ConnectionRefused")
                    } else {
                        k.is_some()
                    };
                    if !fits {
                        // a timeout where the node did react: the reaction may simply have come late
                        // (machine stall) — re-run before judging
                        cand(&mut v, timed_out && last_late, format!("C19:wrong-error-reported:{kind}:{}", last.name()), &format!("call {ci}: the last attempt ended as '{}' but the call reported {}", last.name(), res.long()));
                    }
                }
            }
        }
        if !call.res.is_ok() {
            stat(&mut v, format!("is_connected_after_failed_call:{}", call.connected_after.map(|b| b.to_string()).unwrap_or("?".into())));
        }
    }

    // (4) recovery as bounded progress over the healthy phase
    let healthy: Vec<(usize, &CallObs)> = run.calls.iter().enumerate().filter(|(_, c)| c.healthy).collect();
    let first_ok = healthy.iter().position(|(_, c)| c.res.is_ok());
    // the attempt where the client last reached the node / the node last acted on a live connection
    let last_contact = (0..n).rev().find(|&k| cls[k].contact());
    let cause = match last_contact {
        Some(k) => run.attempts[k].scripted.map(|o| o.cause()).unwrap_or("healthy"),
        None => "nothing",
    };
    let healthy_reqs: u32 = (0..n).filter(|&k| run.calls[run.attempts[k].call].healthy).map(|k| cls[k].requests).sum();
    let all_fail_timeouts = healthy.iter().all(|(_, c)| c.res.is_ok() || c.res.io_kind() == Some("TimedOut"));
    match first_ok {
        Some(i) if i < RECOVERY_WINDOW => {
            v.recovered = true;
            stat(&mut v, format!("recovered_at_healthy_call:{i}"));
            for (ci, c) in healthy.iter().skip(i + 1) {
                if !c.res.is_ok() {
                    cand(&mut v, c.res.io_kind() == Some("TimedOut"), format!("C19:relapse:{kind}:{}", c.res.short()), &format!("healthy-phase call {ci} failed after an earlier healthy call had succeeded"));
                }
            }
        }
        _ => {
            stat(&mut v, format!("wedged_after:{cause}"));
            let what = format!(
                "node wedged: reachable and answering, yet {} of {} healthy-phase calls succeeded (first success: {}); the client last reached the node in the attempt scripted '{}'; during the healthy phase the node received {} request(s)",
                healthy.iter().filter(|(_, c)| c.res.is_ok()).count(),
                healthy.len(),
                first_ok.map(|i| format!("healthy call {i}")).unwrap_or("never".into()),
                cause,
                healthy_reqs
            );
            cand(&mut v, all_fail_timeouts && healthy_reqs > 0, format!("C19:wedged:{kind}:{cause}"), &what);
        }
    }
    v
}

// ------------------------------------------------------------------ concurrent use of one fleet

/// What one concurrent-use unit observed.
#[derive(Default)]
struct ConcOut {
    rounds: u64,
    faults: BTreeMap<String, u64>,
    fault_calls_failed: u64,
    fault_calls_succeeded: u64,
    judged_calls: u64,
    judged_ok: u64,
    judged_poller_calls: u64,
    exempt_poller_calls: u64,
    observer_ops: u64,
    health_checks: u64,
    timeouts_discarded: u64,
    connections_accepted: u64,
    distinct: Vec<u64>,
    findings: Vec<(String, String, Value)>,
    inconclusive: Vec<String>,
}

struct ConcFail {
    who: String,
    round: usize,
    path: String,
    res: Res,
}

#[derive(Clone, Copy, PartialEq)]
enum Role {
    Observe,
    Call,
    Health,
}

/// ONE fleet (max_attempts = 1, one node) used by several threads at once. A driver thread runs rounds of
/// [a call that runs into a transport failure: the node reads the request and closes / resets the connection, or kills the
/// idle connection just before the call] then [a call on the healthy node]. Meanwhile poller threads look at the same fleet
/// (is_connected, connected_nodes, Display, keys, is_connected_all), call the same node, or run health checks. The node accepts
/// every connection and answers every request except the driver's close/reset ones, so connections die only during a fault
/// call, and the fleet has been told about each death (the failure was reported) when that call returns.
/// Oracle: a call that starts after the fault call returned and ends before the next one starts (the driver's healthy calls;
/// the pollers' calls that saw the same even `epoch` before and after) must succeed; one that fails while its request never
/// reached the node was made on a dead cached connection, i.e. the reported failure left the node wedged for that call.
/// Calls overlapping a fault call are not judged. A timeout (2 s node timeout, nothing here is silent) is discarded, never judged.
fn run_concurrent_unit(kind: Kind, unit: usize, seed: u64, rounds: usize, deadline: Instant) -> ConcOut {
    let mut out = ConcOut::default();
    let k = kind.name();
    let node = match FakeNode::start(NODE_NAME) {
        Ok(n) => Arc::new(n),
        Err(e) => {
            out.inconclusive.push(format!("harness: concurrent-use unit: {e}"));
            return out;
        }
    };
    node.reset(0);
    let timeout = Duration::from_secs(2);
    let cfg = node_config(NODE_NAME, node.port, &[], timeout);
    let opts = FleetOptions { default_timeout: timeout, retry_policy: RetryPolicy { max_attempts: 1, delay: Duration::from_millis(1) } };
    let fleet = Arc::new(match kind {
        Kind::Sync => AnyFleet::Sync(Fleet::with_options(vec![cfg], opts).expect("fleet")),
        Kind::Async => AnyFleet::Async(AsyncFleet::with_options(vec![cfg], opts).expect("async fleet")),
    });
    let rt = Arc::new(tokio::runtime::Builder::new_multi_thread().worker_threads(2).enable_all().build().expect("runtime"));
    // odd while a fault call is in progress
    let epoch = Arc::new(AtomicU64::new(0));
    let cur_round = Arc::new(AtomicUsize::new(0));
    let stop = Arc::new(AtomicBool::new(false));
    let failed: Arc<Mutex<Vec<ConcFail>>> = Arc::new(Mutex::new(vec![]));
    // [observer ops, judged poller calls, judged ok, exempt poller calls, health checks, timeouts]
    let ctr: Arc<Vec<AtomicU64>> = Arc::new((0..6).map(|_| AtomicU64::new(0)).collect());
    let roles: [Role; 3] = match unit % 3 {
        0 => [Role::Observe, Role::Observe, Role::Observe],
        1 => [Role::Call, Role::Observe, Role::Observe],
        _ => [Role::Call, Role::Health, Role::Observe],
    };
    let mut handles = vec![];
    for (p, role) in roles.iter().copied().enumerate() {
        let (fleet, rt, epoch, cur_round, stop, failed, ctr) = (fleet.clone(), rt.clone(), epoch.clone(), cur_round.clone(), stop.clone(), failed.clone(), ctr.clone());
        let mut r = Rng::new(seed ^ 0xC19_0B5 ^ ((p as u64 + 1) << 32));
        handles.push(std::thread::spawn(move || {
            while !stop.load(Ordering::Relaxed) {
                match role {
                    Role::Observe => {
                        std::hint::black_box(fleet.observe(&rt, r.below(20)));
                        ctr[0].fetch_add(1, Ordering::Relaxed);
                    }
                    Role::Health => {
                        std::hint::black_box(fleet.health(&rt, &format!("{CONC_OK}health")));
                        ctr[4].fetch_add(1, Ordering::Relaxed);
                        std::hint::black_box(fleet.observe(&rt, r.below(20)));
                        ctr[0].fetch_add(1, Ordering::Relaxed);
                    }
                    Role::Call => {
                        let e0 = epoch.load(Ordering::SeqCst);
                        let round = cur_round.load(Ordering::SeqCst);
                        let path = format!("{CONC_OK}{}", TOKEN.fetch_add(1, Ordering::Relaxed));
                        let api = *r.pick(&[Api::Json, Api::Message, Api::JsonNoParams]);
                        let res = fleet.call(&rt, api, NODE_NAME, &path, &json!({"tok": path}));
                        let e1 = epoch.load(Ordering::SeqCst);
                        if e0 != e1 || e0 % 2 == 1 {
                            ctr[3].fetch_add(1, Ordering::Relaxed);
                        } else {
                            ctr[1].fetch_add(1, Ordering::Relaxed);
                            if res.is_ok() {
                                ctr[2].fetch_add(1, Ordering::Relaxed);
                            } else if res.io_kind() == Some("TimedOut") {
                                ctr[5].fetch_add(1, Ordering::Relaxed);
                            } else {
                                failed.lock().unwrap_or_else(|e| e.into_inner()).push(ConcFail { who: format!("poller thread {p}"), round, path, res });
                            }
                        }
                    }
                }
            }
        }));
    }

    let mut r = Rng::new(seed ^ 0xC19_C0C);
    let mut fault_of_round: Vec<&'static str> = vec![];
    for round in 0..rounds {
        if Instant::now() > deadline {
            break;
        }
        cur_round.store(round, Ordering::SeqCst);
        let api = *r.pick(&[Api::Json, Api::Message, Api::JsonNoParams]);
        let tok = TOKEN.fetch_add(1, Ordering::Relaxed);
        let which = r.below(3);
        let fault = ["accepted-then-closed", "reset", "closed-while-idle"][which as usize];
        fault_of_round.push(fault);
        *out.faults.entry(fault.to_string()).or_insert(0) += 1;
        out.distinct.push(hash_of(&("concurrent-use", k, unit % 3, fault, api.name())));
        epoch.fetch_add(1, Ordering::SeqCst);
        let fpath = match which {
            0 => format!("{CONC_CLOSE}{tok}"),
            1 => format!("{CONC_RESET}{tok}"),
            _ => {
                // the node drops every live connection, then serves normally
                node.set_mode(Out::IdleQuick, 0);
                format!("{CONC_OK}{tok}i")
            }
        };
        let fres = fleet.call(&rt, api, NODE_NAME, &fpath, &json!({"tok": fpath}));
        epoch.fetch_add(1, Ordering::SeqCst);
        if fres.is_ok() {
            out.fault_calls_succeeded += 1; // possible only for closed-while-idle (nothing was cached)
        } else {
            out.fault_calls_failed += 1;
        }
        // the transport failure (if any) has been reported: this call must reconnect and succeed
        let path = format!("{CONC_OK}{}", TOKEN.fetch_add(1, Ordering::Relaxed));
        let res = fleet.call(&rt, api, NODE_NAME, &path, &json!({"tok": path}));
        out.judged_calls += 1;
        out.rounds += 1;
        if res.is_ok() {
            out.judged_ok += 1;
        } else if res.io_kind() == Some("TimedOut") {
            out.timeouts_discarded += 1;
        } else {
            failed.lock().unwrap_or_else(|e| e.into_inner()).push(ConcFail { who: format!("driver (after its {} call reported {})", api.name(), fres.short()), round, path, res });
        }
    }
    stop.store(true, Ordering::Relaxed);
    for h in handles {
        let _ = h.join();
    }
    out.observer_ops = ctr[0].load(Ordering::Relaxed);
    out.judged_poller_calls = ctr[1].load(Ordering::Relaxed);
    out.judged_calls += out.judged_poller_calls;
    out.judged_ok += ctr[2].load(Ordering::Relaxed);
    out.exempt_poller_calls = ctr[3].load(Ordering::Relaxed);
    out.health_checks = ctr[4].load(Ordering::Relaxed);
    out.timeouts_discarded += ctr[5].load(Ordering::Relaxed);
    let (log, herr, _) = node.take_log();
    if let Some(e) = herr {
        out.inconclusive.push(format!("concurrent-use unit: fake node trouble: {e}"));
        return out;
    }
    out.connections_accepted = log.iter().filter(|e| e.ev == Ev::Accepted).count() as u64;
    if (out.rounds as usize) < rounds {
        out.inconclusive.push(format!("concurrent-use unit {k}/{unit} stopped at its wall-clock bound after {} of {rounds} rounds", out.rounds));
    }
    if out.observer_ops + out.judged_poller_calls + out.exempt_poller_calls < out.rounds {
        out.inconclusive.push(format!("concurrent-use unit {k}/{unit}: the poller threads hardly ran ({} operations in {} rounds)", out.observer_ops, out.rounds));
    }
    // node side: which requests arrived, which were answered
    let mut reached: HashMap<&str, bool> = HashMap::new();
    for (i, e) in log.iter().enumerate() {
        if let Ev::Request { path, .. } = &e.ev {
            let replied = log.get(i + 1).is_some_and(|n| n.conn == e.conn && n.ev == Ev::RepliedOk);
            reached.insert(path.as_str(), replied);
        }
    }
    let role_names: Vec<&str> = roles.iter().map(|r| match r { Role::Observe => "observer", Role::Call => "caller", Role::Health => "health-checker" }).collect();
    let scenario = json!({"part": "concurrent-use", "kind": k, "unit": unit, "seed": seed, "rounds": rounds, "pollers": role_names});
    let fails = std::mem::take(&mut *failed.lock().unwrap_or_else(|e| e.into_inner()));
    for f in fails.iter().take(4) {
        let fault = fault_of_round.get(f.round).copied().unwrap_or("?");
        let ctx = format!("{k}, max_attempts 1, one node that accepts every connection; pollers {role_names:?} on the same fleet; round {} of {rounds} (fault of the round: {fault}); {} accepted connection(s) over {} rounds", f.round, out.connections_accepted, out.rounds);
        match reached.get(f.path.as_str()) {
            None => out.findings.push((
                format!("C19:wedged:{k}:{fault}:concurrent-use"),
                format!("call {} by the {} failed with {} and its request never reached the node: it was made on a dead cached connection although the transport failure that killed it had already been reported to a caller, and no other fault was in progress — {ctx}", f.path, f.who, f.res.long()),
                scenario.clone(),
            )),
            Some(true) => out.findings.push((
                format!("C19:reply-not-reported:{k}:concurrent-use"),
                format!("call {} by the {} reported {} although the node answered it successfully — {ctx}", f.path, f.who, f.res.long()),
                scenario.clone(),
            )),
            Some(false) => out.inconclusive.push(format!("concurrent-use unit {k}/{unit}: the fake node could not answer {} ({})", f.path, f.res.long())),
        }
    }
    out
}

/// The concurrent-use part of the retry stage: several units (fleet kind x poller mix) side by side.
fn run_concurrent(args: &Args, rep: &mut Report, only: Option<(Kind, usize, u64)>) {
    let rounds = args.budget(400, 2500) as usize;
    let deadline = Instant::now() + Duration::from_secs(if args.thorough() { 90 } else { 20 });
    let units: Vec<(Kind, usize, u64)> = match only {
        Some(u) => vec![u],
        None => {
            let mut u = vec![];
            for i in 0..(if args.thorough() { 9 } else { 6 }) {
                u.push((Kind::Sync, i, args.seed.wrapping_mul(1_000_003).wrapping_add(i as u64)));
            }
            for i in 0..3 {
                u.push((Kind::Async, i, args.seed.wrapping_mul(1_000_003).wrapping_add(100 + i as u64)));
            }
            u
        }
    };
    let handles: Vec<_> = units.into_iter().map(|(kind, unit, seed)| std::thread::spawn(move || run_concurrent_unit(kind, unit, seed, rounds, deadline))).collect();
    let mut total_faults = 0;
    for h in handles {
        let o = match h.join() {
            Ok(o) => o,
            Err(_) => {
                rep.inconclusive("harness: a concurrent-use unit panicked");
                continue;
            }
        };
        for _ in 0..o.judged_calls {
            rep.eval();
        }
        for d in &o.distinct {
            rep.distinct(d);
        }
        rep.count("concurrent_use:rounds", o.rounds);
        for (f, n) in &o.faults {
            rep.count(&format!("concurrent_use:fault:{f}"), *n);
        }
        total_faults += o.fault_calls_failed;
        rep.count("concurrent_use:fault_calls_reporting_a_transport_failure", o.fault_calls_failed);
        rep.count("concurrent_use:fault_calls_that_succeeded(nothing cached to kill)", o.fault_calls_succeeded);
        rep.count("concurrent_use:calls_judged(must succeed)", o.judged_calls);
        rep.count("concurrent_use:calls_judged_ok", o.judged_ok);
        rep.count("concurrent_use:poller_calls_judged", o.judged_poller_calls);
        rep.count("concurrent_use:poller_calls_overlapping_a_fault(not judged)", o.exempt_poller_calls);
        rep.count("concurrent_use:observer_operations", o.observer_ops);
        rep.count("concurrent_use:health_checks", o.health_checks);
        rep.count("concurrent_use:timeouts_discarded", o.timeouts_discarded);
        rep.count("concurrent_use:connections_accepted_by_the_nodes", o.connections_accepted);
        for (sig, detail, sc) in o.findings {
            rep.violation(sig, detail, sc);
        }
        for i in o.inconclusive {
            rep.inconclusive(i);
        }
    }
    if total_faults == 0 {
        rep.inconclusive("concurrent-use part: no fault call reported a transport failure");
    }
}

// ------------------------------------------------------------------ retry stage driver

fn sequences(len: usize) -> impl Iterator<Item = Vec<Out>> {
    let total = ALPHA.len().pow(len as u32);
    (0..total).map(move |mut i| {
        let mut s = vec![Out::Success; len];
        for p in (0..len).rev() {
            s[p] = ALPHA[i % ALPHA.len()];
            i /= ALPHA.len();
        }
        s
    })
}

fn build_cases(args: &Args) -> (Vec<CaseSpec>, Value) {
    let mut cases = vec![];
    let ms: &[usize] = if args.thorough() { &[1, 2, 3] } else { &[1, 2] };
    let maxlen = ms.iter().max().unwrap() + 2;
    // ascending length so the first witness of a signature is a short one
    for len in 1..=maxlen {
        for &m in ms {
            if len > m + 2 {
                continue;
            }
            for script in sequences(len) {
                for kind in [Kind::Sync, Kind::Async] {
                    cases.push(CaseSpec { kind, m, script: script.clone(), api: Api::Json, malformed_kind: 0 });
                }
            }
        }
    }
    let exhaustive_n = cases.len();
    // seeded samples: the part of the quantifier not enumerated in this tier, other entry points,
    // other kinds of malformed reply
    let mut rng = Rng::new(args.seed ^ 0xC19);
    let mut sampled = 0;
    if !args.thorough() {
        for _ in 0..args.budget(500, 0) {
            let len = 3 + rng.usize_below(3);
            let script: Vec<Out> = (0..len).map(|_| *rng.pick(&ALPHA)).collect();
            let kind = if rng.coin() { Kind::Sync } else { Kind::Async };
            cases.push(CaseSpec { kind, m: 3, script, api: Api::Json, malformed_kind: 0 });
            sampled += 1;
        }
    }
    for _ in 0..args.budget(300, 6000) {
        let m = 1 + rng.usize_below(3);
        let len = 1 + rng.usize_below(m + 2);
        let script: Vec<Out> = (0..len).map(|_| *rng.pick(&ALPHA)).collect();
        let kind = if rng.coin() { Kind::Sync } else { Kind::Async };
        let api = *rng.pick(&[Api::JsonNoParams, Api::Message, Api::Json]);
        let malformed_kind = if api == Api::Json { 1 + rng.below(5) as u8 } else { rng.below(6) as u8 };
        cases.push(CaseSpec { kind, m, script, api, malformed_kind });
        sampled += 1;
    }
    let space = json!({
        "alphabet": ALPHA.iter().map(|o| o.name()).collect::<Vec<_>>(),
        "exhaustive_subspace": format!("every sequence of length 1..=max_attempts+2 over the {}-symbol alphabet for max_attempts in {:?}, for Fleet and AsyncFleet, entry point call_json(params), malformed reply = bad magic", ALPHA.len(), ms),
        "exhaustive_cases": exhaustive_n,
        "sampled_cases": sampled,
    });
    (cases, space)
}

struct CaseDone {
    idx: usize,
    spec: CaseSpec,
    verdict: Verdict,
    reruns: u32,
    frames_in: u64,
    node_events: u64,
    sample: Option<Value>,
}

fn worker_runtime() -> tokio::runtime::Runtime {
    tokio::runtime::Builder::new_multi_thread().worker_threads(1).enable_all().build().expect("runtime")
}

/// Run one case to a verdict; timing-suspect executions are re-run, never judged.
fn judge_case(spec: &CaseSpec, node: &Arc<FakeNode>, rt: &tokio::runtime::Runtime, hb: &Heartbeat) -> (Verdict, CaseRun, u32) {
    let mut reruns = 0;
    loop {
        hb.reset();
        let run = run_case(spec, node, rt);
        let v = evaluate(&run, false);
        let troubled = !v.suspect.is_empty() || !v.inconclusive.is_empty();
        if !troubled {
            return (v, run, reruns);
        }
        if reruns < 2 {
            reruns += 1;
            continue;
        }
        // three executions in a row looked the same: judge strictly unless the machine stalled
        if hb.max_gap_ms() < 100 && v.inconclusive.is_empty() {
            return (evaluate(&run, true), run, reruns);
        }
        let mut v = v;
        let s = std::mem::take(&mut v.suspect);
        v.inconclusive.extend(s.into_iter().map(|x| format!("timing-suspect execution persisted (machine stall {} ms): {x}", hb.max_gap_ms())));
        return (v, run, reruns);
    }
}

fn run_retry(args: &Args) -> Report {
    let mut rep = Report::new(
        args,
        "c19-retry",
        "scripted fake node; per-attempt outcome set from the fleet.attempt/async_fleet.attempt probe; alphabet {refused, \
         accepted-then-closed, closed-while-idle(noticed|quick), silent, malformed, app-error, success}; every sequence of \
         length <= max_attempts+2 (thorough: max_attempts 1..3; quick: 1..2 + seeded sample of 3) x {Fleet, AsyncFleet}, then 5 \
         healthy calls; oracle on the attempt log: attempts <= max, no attempt after a reply, result = the reply else a \
         transport error fitting the last attempt, within 3 healthy calls one succeeds and all later ones do; distinct = \
         (fleet kind, max_attempts, script, entry point, malformed kind) of cases containing a fault. Plus concurrent use of ONE fleet (max_attempts 1): a driver thread alternates a call that \
         runs into a transport failure (node reads the request and closes / resets, or kills the idle connection) with a call on the healthy node while 3 other threads poll the same fleet \
         (is_connected, connected_nodes, Display, keys, is_connected_all), call the same node or run health checks; a call that starts after the failure was reported and overlaps no fault must succeed: \
         failing without its request reaching the node (which accepts every connection) means a dead cached connection was kept",
    );
    rep.max_samples = 8;
    // replay of one recorded scenario
    let replay_sc = args.replay.as_ref().map(|path| std::fs::read_to_string(path).ok().and_then(|s| serde_json::from_str::<Value>(&s).ok()));
    if let Some(Some(v)) = &replay_sc {
        let v = if v["scenario"].is_object() { &v["scenario"] } else { v };
        if v["part"] == "concurrent-use" {
            let kind = if v["kind"] == "async_fleet" { Kind::Async } else { Kind::Sync };
            run_concurrent(args, &mut rep, Some((kind, v["unit"].as_u64().unwrap_or(0) as usize, v["seed"].as_u64().unwrap_or(1))));
            return rep;
        }
    }
    // concurrent use of one fleet (its own threads; before the probe is installed and the case workers start)
    if args.replay.is_none() {
        run_concurrent(args, &mut rep, None);
    }
    install_probe();
    if let Some(sc) = replay_sc {
        let spec = sc.as_ref().and_then(|v| CaseSpec::from_replay(if v["scenario"].is_object() { &v["scenario"] } else { v }));
        match spec {
            Some(spec) => {
                let node = Arc::new(FakeNode::start(NODE_NAME).expect("fake node"));
                let rt = worker_runtime();
                let hb = Heartbeat::start();
                for _ in 0..3 {
                    let (v, run, _) = judge_case(&spec, &node, &rt, &hb);
                    rep.eval();
                    rep.distinct(&spec);
                    rep.sample(json!({"case": spec.describe(), "calls": run.calls.iter().map(|c| c.res.long()).collect::<Vec<_>>()}));
                    for f in v.findings {
                        rep.violation(f.sig, f.detail, spec.replay());
                    }
                    for i in v.inconclusive {
                        rep.inconclusive(i);
                    }
                }
            }
            None => rep.inconclusive("replay file holds no retry scenario"),
        }
        repe::verif_hooks::set_probe(None);
        return rep;
    }

    let (cases, space) = build_cases(args);
    let cases = Arc::new(cases);
    let total = cases.len();
    let next = Arc::new(AtomicUsize::new(0));
    let stop = Arc::new(AtomicBool::new(false));
    let deadline = Instant::now() + Duration::from_secs(if args.thorough() { 450 } else { 40 });
    let workers = if args.thorough() { 40 } else { 48 };
    let (tx, rx) = mpsc::channel::<Result<CaseDone, String>>();
    let ports: Arc<Mutex<Vec<u16>>> = Arc::new(Mutex::new(vec![]));
    let main_hb = Heartbeat::start();
    let mut handles = vec![];
    for wid in 0..workers {
        let (cases, next, stop, tx, ports) = (cases.clone(), next.clone(), stop.clone(), tx.clone(), ports.clone());
        handles.push(std::thread::spawn(move || {
            let node = match FakeNode::start(NODE_NAME) {
                Ok(n) => Arc::new(n),
                Err(e) => {
                    let _ = tx.send(Err(format!("worker {wid}: {e}")));
                    return;
                }
            };
            ports.lock().unwrap_or_else(|e| e.into_inner()).push(node.port);
            let rt = worker_runtime();
            let hb = Heartbeat::start();
            loop {
                if stop.load(Ordering::Relaxed) || Instant::now() > deadline {
                    break;
                }
                let idx = next.fetch_add(1, Ordering::Relaxed);
                if idx >= cases.len() {
                    break;
                }
                let spec = &cases[idx];
                let (verdict, run, reruns) = judge_case(spec, &node, &rt, &hb);
                let sample = if idx % 997 == 5 || !verdict.findings.is_empty() {
                    Some(json!({"case": spec.describe(),
                        "calls": run.calls.iter().map(|c| format!("{}{}", if c.healthy {"healthy:"} else {""}, c.res.short())).collect::<Vec<_>>(),
                        "attempts": run.attempts.len(), "node_events": run.node_log.len()}))
                } else {
                    None
                };
                let done = CaseDone { idx, spec: spec.clone(), verdict, reruns, frames_in: run.frames_in, node_events: run.node_log.len() as u64, sample };
                if tx.send(Ok(done)).is_err() {
                    break;
                }
            }
        }));
    }
    drop(tx);

    // aggregate; keep the shortest witness per signature
    let mut best: HashMap<String, (usize, String, Value)> = HashMap::new();
    let mut suppressed = 0u64;
    let mut done_n = 0usize;
    let mut viol_samples = 0;
    let mut stats: BTreeMap<String, u64> = BTreeMap::new();
    let mut incon: BTreeMap<String, u64> = BTreeMap::new();
    for msg in rx {
        let d = match msg {
            Ok(d) => d,
            Err(e) => {
                rep.inconclusive(format!("harness: {e}"));
                continue;
            }
        };
        done_n += 1;
        rep.eval();
        if d.spec.script.iter().any(|o| *o != Out::Success) {
            rep.distinct(&d.spec);
        }
        rep.count("cases", 1);
        rep.count(&format!("cases:{}", d.spec.kind.name()), 1);
        rep.count("case_reruns_timing_suspect", d.reruns as u64);
        rep.count("node_request_frames_parsed", d.frames_in);
        rep.count("node_events", d.node_events);
        if d.verdict.recovered {
            rep.count("cases_recovered", 1);
        }
        for (k, n) in &d.verdict.stats {
            *stats.entry(k.clone()).or_insert(0) += n;
        }
        if let Some(s) = d.sample {
            let is_v = !d.verdict.findings.is_empty();
            if !is_v || viol_samples < 3 {
                rep.sample(s);
                viol_samples += is_v as usize;
            }
        }
        for i in d.verdict.inconclusive {
            *incon.entry(i).or_insert(0) += 1;
        }
        let weight = d.spec.script.len() * 1000 + d.spec.script.iter().filter(|o| **o != Out::Success).count() * 100 + d.spec.m * 10 + (d.spec.kind == Kind::Async) as usize;
        for f in d.verdict.findings {
            match best.get(&f.sig) {
                Some((w, _, _)) if *w <= weight => suppressed += 1,
                other => {
                    if other.is_some() {
                        suppressed += 1;
                    }
                    best.insert(f.sig, (weight, f.detail, d.spec.replay()));
                }
            }
        }
    }
    for h in handles {
        let _ = h.join();
    }
    repe::verif_hooks::set_probe(None);

    let mut sigs: Vec<_> = best.into_iter().collect();
    sigs.sort_by(|a, b| a.0.cmp(&b.0));
    for (sig, (_, detail, replay)) in sigs {
        rep.violation(sig, detail, replay);
    }
    rep.suppressed_violations += suppressed;
    for (k, n) in &stats {
        rep.count(k, *n);
    }
    for (i, n) in incon {
        rep.inconclusive(format!("{i} (x{n})"));
    }
    rep.set("space", space);
    rep.set("cases_planned", json!(total));
    rep.set("workers", json!(workers));
    rep.set("fake_node_ports", json!(*ports.lock().unwrap_or_else(|e| e.into_inner())));
    rep.set("machine_stall_max_ms", json!(main_hb.max_gap_ms()));
    rep.set("probe_hits_outside_any_case", json!(PROBE_OUTSIDE.load(Ordering::Relaxed)));
    if PROBE_WRONG_POINT.load(Ordering::Relaxed) > 0 {
        rep.inconclusive("a fleet fired the other fleet kind's probe point");
    }
    let complete = done_n == total;
    rep.exhaustive = Some(complete && args.thorough());
    rep.set("enumerated_subspace_complete", json!(complete));
    if !complete {
        rep.inconclusive(format!("stopped at the wall-clock budget after {done_n} of {total} cases"));
    }
    let retries: u64 = stats.iter().filter(|(k, _)| k.starts_with("retried_after:")).map(|(_, n)| *n).sum();
    if retries == 0 && done_n > 0 {
        rep.inconclusive("no retry was ever observed: the retry path was not exercised");
    }
    if done_n == 0 {
        rep.inconclusive("no case ran");
    }
    rep
}

// ------------------------------------------------------------------ tags / broadcast stage

fn subsets<'a>(u: &[&'a str]) -> Vec<Vec<&'a str>> {
    (0..1usize << u.len()).map(|mask| u.iter().enumerate().filter(|(i, _)| mask >> i & 1 == 1).map(|(_, t)| *t).collect()).collect()
}

struct TagCfg {
    /// tag set per node (index into the worker's fake nodes)
    tags: Vec<Vec<&'static str>>,
    /// every subset of the universe the tags were drawn from, plus an unknown tag
    queries: Arc<Vec<Vec<&'static str>>>,
}

fn tag_configs(universe: &[&'static str], max_nodes: usize) -> Vec<TagCfg> {
    let subs = subsets(universe);
    let mut qu = universe.to_vec();
    qu.push("zz"); // a tag no node carries
    let queries = Arc::new(subsets(&qu));
    let mut out = vec![];
    for n in 1..=max_nodes {
        let total = subs.len().pow(n as u32);
        for mut i in 0..total {
            let mut tags = vec![];
            for _ in 0..n {
                tags.push(subs[i % subs.len()].clone());
                i /= subs.len();
            }
            out.push(TagCfg { tags, queries: queries.clone() });
        }
    }
    out
}

#[derive(Default)]
struct TagOut {
    evals: u64,
    broadcasts: u64,
    results_checked: u64,
    node_requests: u64,
    down_node_cases: u64,
    histories: u64,
    misbehaving_node_cases: u64,
    discarded_short_timeout: u64,
    perturbations: u64,
    big_fleet_broadcasts: u64,
    history_broadcasts: u64,
    alphabet_broadcasts: u64,
    alphabet_fleets: u64,
    findings: Vec<(String, String, Value)>,
    inconclusive: Vec<String>,
    distinct: Vec<u64>,
}

fn drain_paths(node: &FakeNode) -> Vec<String> {
    let (log, _, _) = node.take_log();
    log.into_iter().filter_map(|e| if let Ev::Request { path, .. } = e.ev { Some(path) } else { None }).collect()
}

/// One broadcast on `fleet`, judged against `member_tags` (index -> tag set of the fake node that is a member right now, None = not a member).
#[allow(clippy::too_many_arguments)]
fn one_broadcast(kind: Kind, fleet: &AnyFleet, rt: &tokio::runtime::Runtime, nodes: &[Arc<FakeNode>], member_tags: &[Option<Vec<&'static str>>], q: &[&'static str], down: Option<usize>, reduce: bool, with_params: bool, history: &Value, hist_ctx: &str, out: &mut TagOut) {
    let k = kind.name();
    let names: Vec<String> = (0..nodes.len()).map(|i| format!("node{i}")).collect();
    let expected: BTreeSet<usize> = (0..member_tags.len()).filter(|&i| member_tags[i].as_ref().is_some_and(|tags| q.iter().all(|t| tags.contains(t)))).collect();
    let path = format!("/c19b/{}", TOKEN.fetch_add(1, Ordering::Relaxed));
    let params = json!({"tok": path});
    if let Some(d) = down {
        nodes[d].set_mode(Out::Refused, 0);
        out.down_node_cases += 1;
    }
    let p = if with_params { Some(&params) } else { None };
    // the result list as (node name, Res)
    let results: Vec<(String, Res)> = match (fleet, reduce) {
        (AnyFleet::Sync(f), false) => f.broadcast_json(&path, p, q).into_iter().map(|(name, r)| { let nm = r.node.clone(); (name, res_of_json(r, &nm, &path)) }).collect(),
        (AnyFleet::Sync(f), true) => f.map_reduce_json(&path, p, q, |rs| rs.into_iter().map(|r| { let nm = r.node.clone(); (nm.clone(), res_of_json(r, &nm, &path)) }).collect()),
        (AnyFleet::Async(f), false) => rt.block_on(f.broadcast_json(&path, p, q)).into_iter().map(|(name, r)| { let nm = r.node.clone(); (name, res_of_json(r, &nm, &path)) }).collect(),
        (AnyFleet::Async(f), true) => rt.block_on(f.map_reduce_json(&path, p, q, |rs| rs.into_iter().map(|r| { let nm = r.node.clone(); (nm.clone(), res_of_json(r, &nm, &path)) }).collect())),
    };
    let filtered: BTreeSet<String> = match fleet {
        AnyFleet::Sync(f) => f.filter_nodes(q).into_iter().map(|n| n.name).collect(),
        AnyFleet::Async(f) => rt.block_on(f.filter_nodes(q)).into_iter().map(|n| n.name).collect(),
    };
    if let Some(d) = down {
        nodes[d].set_mode(Out::Success, 0);
    }
    out.evals += 1;
    out.broadcasts += 1;
    out.distinct.push(hash_of(&(k, member_tags, q, down, reduce, hist_ctx)));
    let scenario = json!({"part": "tags", "kind": k, "node_tags": member_tags, "requested": q, "down_node": down, "via": if reduce {"map_reduce_json"} else {"broadcast_json"}, "history": history});
    let ctx = format!("{k} members={:?} requested={:?} down={:?} via {}{}", member_tags, q, down, if reduce { "map_reduce_json" } else { "broadcast_json" }, hist_ctx);
    let want_names: BTreeSet<String> = expected.iter().map(|&i| names[i].clone()).collect();
    let got_names: BTreeSet<String> = results.iter().map(|(n, _)| n.clone()).collect();
    if results.len() != got_names.len() || results.len() != want_names.len() && got_names == want_names {
        out.findings.push((format!("C19:broadcast-result-count:{k}"), format!("{} results for {} addressed nodes — {ctx}; got {:?}", results.len(), want_names.len(), results.iter().map(|(n, r)| format!("{n}:{}", r.short())).collect::<Vec<_>>()), scenario.clone()));
    }
    if let Some(x) = got_names.difference(&want_names).next() {
        out.findings.push((format!("C19:broadcast-addressed-extra:{k}"), format!("result from {x} which does not carry all requested tags (or is not a member) — {ctx}"), scenario.clone()));
    }
    if let Some(x) = want_names.difference(&got_names).next() {
        out.findings.push((format!("C19:broadcast-missed-node:{k}"), format!("no result for {x} which carries all requested tags — {ctx}"), scenario.clone()));
    }
    if filtered != want_names {
        out.findings.push((format!("C19:filter-nodes:{k}"), format!("filter_nodes returned {filtered:?}, expected {want_names:?} — {ctx}"), scenario.clone()));
    }
    for (name, r) in &results {
        out.results_checked += 1;
        let idx = names.iter().position(|x| x == name);
        let is_down = idx.is_some() && idx == down;
        if is_down {
            if !matches!(r, Res::Io { .. }) {
                out.findings.push((format!("C19:broadcast-wrong-result:{k}:down-node"), format!("node {name} was down (refused) but its result is {} — {ctx}", r.long()), scenario.clone()));
            }
        } else if !r.is_ok() {
            if r.io_kind() == Some("TimedOut") {
                out.inconclusive.push(format!("a healthy broadcast target timed out after 5 s ({ctx})"));
            } else {
                out.findings.push((format!("C19:broadcast-wrong-result:{k}"), format!("result of {name} is {} instead of that node's own reply to this broadcast — {ctx}", r.long()), scenario.clone()));
            }
        }
    }
    // node side: exactly the addressed nodes received exactly one request carrying this token
    for i in 0..nodes.len() {
        let got = drain_paths(&nodes[i]).into_iter().filter(|p| *p == path).count();
        out.node_requests += got as u64;
        let want = expected.contains(&i) as usize;
        // the node that is down may still see the request on a connection cached earlier (it then closes it)
        if got != want && !(Some(i) == down && got == 0) {
            let sig = if want == 0 { format!("C19:broadcast-sent-to-unaddressed:{k}") } else { format!("C19:broadcast-request-count:{k}") };
            out.findings.push((sig, format!("fake node {i} received {got} request(s) for this broadcast, expected {want} — {ctx}"), scenario.clone()));
        }
    }
}

fn run_tag_config(kind: Kind, cfg: &TagCfg, cfg_idx: usize, nodes: &[Arc<FakeNode>], rt: &tokio::runtime::Runtime, out: &mut TagOut) {
    let n = cfg.tags.len();
    let names: Vec<String> = (0..n).map(|i| format!("node{i}")).collect();
    let timeout = Duration::from_secs(5);
    let cfgs: Vec<NodeConfig> = (0..n).map(|i| node_config(&names[i], nodes[i].port, &cfg.tags[i], timeout)).collect();
    let opts = FleetOptions { default_timeout: timeout, retry_policy: RetryPolicy { max_attempts: 1, delay: Duration::from_millis(1) } };
    let fleet = match kind {
        Kind::Sync => AnyFleet::Sync(Fleet::with_options(cfgs, opts).expect("fleet")),
        Kind::Async => AnyFleet::Async(AsyncFleet::with_options(cfgs, opts).expect("fleet")),
    };
    for nd in nodes {
        nd.reset(0);
    }
    let member_tags: Vec<Option<Vec<&'static str>>> = cfg.tags.iter().cloned().map(Some).collect();
    // one extra pass with a node down (refused): its result must still be there, as an error
    let down: Option<usize> = if cfg_idx % 8 == 3 { Some(cfg_idx / 8 % n) } else { None };
    let passes: Vec<(Vec<&'static str>, Option<usize>)> = cfg.queries.iter().cloned().map(|q| (q, None)).chain(down.map(|d| (vec![], Some(d)))).collect();
    for (qi, (q, down)) in passes.iter().enumerate() {
        let with_params = qi % 2 == 0;
        let reduce = qi % 3 == 1;
        // the requested tags are a SET: present them in listed order, reversed, and reversed with a duplicate
        let mut qq: Vec<&'static str> = q.clone();
        match (qi + cfg_idx) % 3 {
            1 => qq.reverse(),
            2 => {
                qq.reverse();
                if let Some(f) = qq.first().copied() {
                    qq.push(f);
                }
            }
            _ => {}
        }
        one_broadcast(kind, &fleet, rt, nodes, &member_tags, &qq, *down, reduce, with_params, &Value::Null, "", out);
    }
    // now and then: one node misbehaves in another way (silent until the timeout on every attempt, closes on the request,
    // answers with an application error) under a SHORT node timeout and 1..2 attempts: the broadcast still returns exactly one
    // result per addressed node, the misbehaving node's being an error
    if cfg_idx % 32 == 5 {
        let d = cfg_idx / 32 % n;
        let mode = [Out::Silent, Out::AcceptClose, Out::AppErr, Out::Silent][cfg_idx / 32 / n % 4];
        let attempts = 1 + cfg_idx / 7 % 2;
        let short = Duration::from_millis(700);
        let cfgs: Vec<NodeConfig> = (0..n).map(|i| node_config(&names[i], nodes[i].port, &cfg.tags[i], short)).collect();
        let opts = FleetOptions { default_timeout: short, retry_policy: RetryPolicy { max_attempts: attempts, delay: Duration::from_millis(1) } };
        let path = format!("/c19b/{}", TOKEN.fetch_add(1, Ordering::Relaxed));
        let params = json!({"tok": path});
        let no_tags: [&str; 0] = [];
        nodes[d].set_mode(mode, 0);
        let reduce = cfg_idx / 32 % 2 == 1;
        let results: Vec<(String, Res)> = match (kind, reduce) {
            (Kind::Sync, false) => Fleet::with_options(cfgs, opts).expect("fleet").broadcast_json(&path, Some(&params), &no_tags).into_iter().map(|(name, r)| { let nm = r.node.clone(); (name, res_of_json(r, &nm, &path)) }).collect(),
            (Kind::Sync, true) => Fleet::with_options(cfgs, opts).expect("fleet").map_reduce_json(&path, Some(&params), &no_tags, |rs| rs.into_iter().map(|r| { let nm = r.node.clone(); (nm.clone(), res_of_json(r, &nm, &path)) }).collect()),
            (Kind::Async, false) => rt.block_on(async { AsyncFleet::with_options(cfgs, opts).expect("fleet").broadcast_json(&path, Some(&params), &no_tags).await }).into_iter().map(|(name, r)| { let nm = r.node.clone(); (name, res_of_json(r, &nm, &path)) }).collect(),
            (Kind::Async, true) => rt.block_on(async { AsyncFleet::with_options(cfgs, opts).expect("fleet").map_reduce_json(&path, Some(&params), &no_tags, |rs| rs.into_iter().map(|r| { let nm = r.node.clone(); (nm.clone(), res_of_json(r, &nm, &path)) }).collect::<Vec<(String, Res)>>()).await }),
        };
        nodes[d].set_mode(Out::Success, 0);
        for nd in nodes {
            let _ = drain_paths(nd);
        }
        let k = kind.name();
        let healthy_timed_out = results.iter().any(|(nm, r)| *nm != names[d] && r.io_kind() == Some("TimedOut"));
        if healthy_timed_out {
            out.discarded_short_timeout += 1;
        } else {
            out.evals += 1;
            out.broadcasts += 1;
            out.misbehaving_node_cases += 1;
            out.distinct.push(hash_of(&("misbehaving", k, n, d, mode.name(), attempts, reduce)));
            let got: BTreeSet<String> = results.iter().map(|(nm, _)| nm.clone()).collect();
            let want: BTreeSet<String> = names.iter().cloned().collect();
            let scenario = json!({"part": "tags-misbehaving-node", "kind": k, "nodes": n, "misbehaving": d, "mode": mode.name(), "max_attempts": attempts, "node_timeout_ms": 700, "via": if reduce {"map_reduce_json"} else {"broadcast_json"}});
            if got != want || results.len() != n {
                out.findings.push((format!("C19:broadcast-result-count:{k}:node-{}", mode.cause()), format!("{} result(s) for {n} addressed nodes when node {d} is '{}' on every attempt (max_attempts {attempts}, node timeout 700 ms): results for {got:?}", results.len(), mode.name()), scenario.clone()));
            }
            if let Some((_, r)) = results.iter().find(|(nm, _)| *nm == names[d]) {
                if r.is_ok() {
                    out.findings.push((format!("C19:broadcast-wrong-result:{k}:node-{}", mode.cause()), format!("node {d} was '{}' but its result is {}", mode.name(), r.long()), scenario));
                }
            }
        }
    }
}

/// Larger fleets (the statement does not bound the node count): N node entries with distinct names share the worker's four
/// fake listeners (entry i -> listener i % 4; a listener serves any number of connections). One result per addressed entry,
/// none for the others, and every listener receives exactly as many requests as it has addressed entries.
fn run_big_fleet(kind: Kind, seed: u64, nodes: &[Arc<FakeNode>], rt: &tokio::runtime::Runtime, out: &mut TagOut) {
    let mut r = Rng::new(seed ^ 0xC19_B16);
    let n = *r.pick(&[5usize, 8, 15, 16, 17, 18, 23, 31, 32, 33, 40, 47, 48, 49, 64, 65]);
    let universe: [&'static str; 2] = ["a", "b"];
    let subs = subsets(&universe);
    let tags: Vec<Vec<&'static str>> = (0..n).map(|_| subs[r.usize_below(subs.len())].clone()).collect();
    let timeout = Duration::from_secs(8);
    let names: Vec<String> = (0..n).map(|i| format!("big{i:02}")).collect();
    let cfgs: Vec<NodeConfig> = (0..n).map(|i| node_config(&names[i], nodes[i % nodes.len()].port, &tags[i], timeout)).collect();
    let opts = FleetOptions { default_timeout: timeout, retry_policy: RetryPolicy { max_attempts: 1, delay: Duration::from_millis(1) } };
    let fleet = match kind {
        Kind::Sync => AnyFleet::Sync(Fleet::with_options(cfgs, opts).expect("fleet")),
        Kind::Async => AnyFleet::Async(AsyncFleet::with_options(cfgs, opts).expect("fleet")),
    };
    for nd in nodes {
        nd.reset(0);
    }
    let k = kind.name();
    // the fake listener behind entry "bigNN" answers under its own name "node<NN % 4>"
    let nl = nodes.len();
    let listener_of = move |entry: &str| -> String { format!("node{}", entry.trim_start_matches("big").parse::<usize>().unwrap_or(0) % nl) };
    for (qi, q) in [vec![], vec!["a"], vec!["b", "a"]].iter().enumerate() {
        let reduce = (qi as u64 + seed) % 2 == 0;
        let path = format!("/c19b/{}", TOKEN.fetch_add(1, Ordering::Relaxed));
        let params = json!({"tok": path});
        let results: Vec<(String, Res)> = match (&fleet, reduce) {
            (AnyFleet::Sync(f), false) => f.broadcast_json(&path, Some(&params), q).into_iter().map(|(name, r)| { let (en, nm) = (r.node.clone(), listener_of(&r.node)); (name, res_of_json_via(r, &en, &nm, &path)) }).collect(),
            (AnyFleet::Sync(f), true) => f.map_reduce_json(&path, Some(&params), q, |rs| rs.into_iter().map(|r| { let (en, nm) = (r.node.clone(), listener_of(&r.node)); (en.clone(), res_of_json_via(r, &en, &nm, &path)) }).collect()),
            (AnyFleet::Async(f), false) => rt.block_on(f.broadcast_json(&path, Some(&params), q)).into_iter().map(|(name, r)| { let (en, nm) = (r.node.clone(), listener_of(&r.node)); (name, res_of_json_via(r, &en, &nm, &path)) }).collect(),
            (AnyFleet::Async(f), true) => rt.block_on(f.map_reduce_json(&path, Some(&params), q, |rs| rs.into_iter().map(|r| { let (en, nm) = (r.node.clone(), listener_of(&r.node)); (en.clone(), res_of_json_via(r, &en, &nm, &path)) }).collect())),
        };
        out.evals += 1;
        out.broadcasts += 1;
        out.big_fleet_broadcasts += 1;
        out.distinct.push(hash_of(&("big", k, n, q, reduce)));
        let want: BTreeSet<String> = (0..n).filter(|&i| q.iter().all(|t| tags[i].contains(t))).map(|i| names[i].clone()).collect();
        let got: BTreeSet<String> = results.iter().map(|(nm, _)| nm.clone()).collect();
        let scenario = json!({"part": "big-fleet", "kind": k, "nodes": n, "requested": q, "via": if reduce {"map_reduce_json"} else {"broadcast_json"}, "seed": seed});
        let ctx = format!("{k} fleet of {n} node entries, requested {q:?} via {}", if reduce { "map_reduce_json" } else { "broadcast_json" });
        if got != want || results.len() != want.len() {
            let missing: Vec<&String> = want.difference(&got).take(6).collect();
            let extra: Vec<&String> = got.difference(&want).take(6).collect();
            out.findings.push((format!("C19:broadcast-result-count:{k}:large-fleet"), format!("{} results for {} addressed nodes — {ctx}; missing {missing:?}, unexpected {extra:?}", results.len(), want.len()), scenario.clone()));
        }
        for (name, res) in &results {
            out.results_checked += 1;
            if !res.is_ok() {
                if res.io_kind() == Some("TimedOut") {
                    out.inconclusive.push(format!("a healthy broadcast target timed out after 8 s ({ctx})"));
                } else {
                    out.findings.push((format!("C19:broadcast-wrong-result:{k}:large-fleet"), format!("result of {name} is {} — {ctx}", res.long()), scenario.clone()));
                }
            }
        }
        for (li, nd) in nodes.iter().enumerate() {
            let got_n = drain_paths(nd).into_iter().filter(|p| *p == path).count();
            out.node_requests += got_n as u64;
            let want_n = (0..n).filter(|&i| i % nodes.len() == li && want.contains(&names[i])).count();
            if got_n != want_n {
                out.findings.push((format!("C19:broadcast-request-count:{k}:large-fleet"), format!("listener {li} received {got_n} requests for this broadcast, {want_n} of its entries were addressed — {ctx}"), scenario.clone()));
            }
        }
    }
}

/// Large TAG ALPHABETS (the statement bounds neither the number of nodes nor the number of distinct tags): a fleet whose nodes
/// carry, in total, 1 .. 300 distinct tags, some nodes registered at construction and the others through add_node, then one
/// removed. No node listens (the port is reserved and refuses): a broadcast still yields one result per addressed node, so the
/// addressed set is the key set of the result map. Requests name early and late tags, one or several, known and unknown; the
/// addressed set, filter_nodes and keys must equal the member -> tags model.
fn run_tag_alphabet(kind: Kind, seed: u64, which: usize, rt: &tokio::runtime::Runtime, out: &mut TagOut) {
    const SIZES: [usize; 9] = [1, 2, 63, 64, 65, 66, 100, 130, 300];
    let total = SIZES[which % SIZES.len()];
    let mut r = Rng::new(seed ^ 0xC19_A1FA);
    let k = kind.name();
    let (_reserved, port) = match mk_socket(0, false) {
        Ok(x) => x,
        Err(e) => {
            out.inconclusive.push(format!("harness: reserving a refusing port: {e}"));
            return;
        }
    };
    let n = 2 + r.usize_below(6);
    // tags are opaque strings; their names carry no order
    let alphabet: Vec<String> = (0..total).map(|j| format!("{:04x}/{j}", hash_of(&(seed, j)) & 0xffff)).collect();
    let mut node_tags: Vec<BTreeSet<String>> = vec![BTreeSet::new(); n];
    for (j, t) in alphabet.iter().enumerate() {
        for (i, tags) in node_tags.iter_mut().enumerate() {
            // tag 0 is on every node, tag j on node j % n, and now and then on others too
            if j == 0 || j % n == i || r.below(8) == 0 {
                tags.insert(t.clone());
            }
        }
    }
    let names: Vec<String> = (0..n).map(|i| format!("alpha{i}")).collect();
    let timeout = Duration::from_secs(2);
    let mk = |i: usize| node_config(&names[i], port, &node_tags[i].iter().map(|s| s.as_str()).collect::<Vec<_>>(), timeout);
    let at_construction = r.usize_below(n + 1);
    let opts = FleetOptions { default_timeout: timeout, retry_policy: RetryPolicy { max_attempts: 1, delay: Duration::from_millis(1) } };
    let cfgs: Vec<NodeConfig> = (0..at_construction).map(&mk).collect();
    let fleet = match kind {
        Kind::Sync => AnyFleet::Sync(Fleet::with_options(cfgs, opts).expect("fleet")),
        Kind::Async => AnyFleet::Async(AsyncFleet::with_options(cfgs, opts).expect("fleet")),
    };
    let mut member: Vec<bool> = (0..n).map(|i| i < at_construction).collect();
    let mut hist = format!("{k}, {total} distinct tags over {n} nodes (a port that refuses connections), {at_construction} node(s) at construction");
    let pick = |r: &mut Rng| alphabet[r.usize_below(total)].clone();
    let step = |r: &mut Rng, member: &[bool], hist: &str, out: &mut TagOut| -> bool {
        let mut requests: Vec<Vec<String>> = vec![vec![], vec![alphabet[0].clone()], vec![alphabet[total - 1].clone()], vec!["no-such-tag".to_string()], vec![alphabet[total - 1].clone(), "no-such-tag".to_string()]];
        for _ in 0..6 {
            let t = pick(r);
            requests.push(vec![t.clone()]);
            requests.push(vec![alphabet[0].clone(), t.clone()]);
            // two tags of one node (never an empty answer for a member), and two arbitrary tags
            let i = r.usize_below(n);
            let own: Vec<&String> = node_tags[i].iter().collect();
            requests.push(vec![own[r.usize_below(own.len())].clone(), own[r.usize_below(own.len())].clone()]);
            requests.push(vec![pick(r), t]);
        }
        // the last tags of the alphabet, one by one
        for j in (0..total).rev().take(4) {
            requests.push(vec![alphabet[j].clone()]);
        }
        for (qi, q) in requests.iter().enumerate() {
            let reduce = qi % 3 == 1;
            let path = format!("/c19b/{}", TOKEN.fetch_add(1, Ordering::Relaxed));
            let got_list: Vec<String> = match (&fleet, reduce) {
                (AnyFleet::Sync(f), false) => f.broadcast_json(&path, None, q).into_keys().collect(),
                (AnyFleet::Sync(f), true) => f.map_reduce_json(&path, None, q, |rs| rs.into_iter().map(|r| r.node).collect()),
                (AnyFleet::Async(f), false) => rt.block_on(f.broadcast_json(&path, None, q)).into_keys().collect(),
                (AnyFleet::Async(f), true) => rt.block_on(f.map_reduce_json(&path, None, q, |rs| rs.into_iter().map(|r| r.node).collect())),
            };
            let filtered: BTreeSet<String> = match &fleet {
                AnyFleet::Sync(f) => f.filter_nodes(q).into_iter().map(|n| n.name).collect(),
                AnyFleet::Async(f) => rt.block_on(f.filter_nodes(q)).into_iter().map(|n| n.name).collect(),
            };
            let want: BTreeSet<String> = (0..n).filter(|&i| member[i] && q.iter().all(|t| node_tags[i].contains(t))).map(|i| names[i].clone()).collect();
            let got: BTreeSet<String> = got_list.iter().cloned().collect();
            out.evals += 1;
            out.broadcasts += 1;
            out.alphabet_broadcasts += 1;
            out.results_checked += got_list.len() as u64;
            out.distinct.push(hash_of(&("alphabet", k, total, q.len(), q.iter().map(|t| alphabet.iter().position(|a| a == t).map(|p| p * 8 / total)).collect::<Vec<_>>(), reduce)));
            let pos: Vec<String> = q.iter().map(|t| alphabet.iter().position(|a| a == t).map(|p| format!("#{p}")).unwrap_or("unknown".into())).collect();
            let scenario = json!({"part": "tag-alphabet", "kind": k, "distinct_tags": total, "nodes": n, "seed": seed, "which": which, "requested": q, "via": if reduce {"map_reduce_json"} else {"broadcast_json"}});
            let ctx = format!("requested {q:?} (tag(s) {pos:?} of {total}) via {} — {hist}", if reduce { "map_reduce_json" } else { "broadcast_json" });
            let before = out.findings.len();
            if got_list.len() != got.len() || got_list.len() != want.len() && got == want {
                out.findings.push((format!("C19:broadcast-result-count:{k}:large-tag-alphabet"), format!("{} results for {} addressed nodes — {ctx}", got_list.len(), want.len()), scenario.clone()));
            }
            if let Some(x) = got.difference(&want).next() {
                out.findings.push((format!("C19:broadcast-addressed-extra:{k}:large-tag-alphabet"), format!("result from {x} which does not carry all requested tags (or is not a member) — {ctx}"), scenario.clone()));
            }
            if let Some(x) = want.difference(&got).next() {
                out.findings.push((format!("C19:broadcast-missed-node:{k}:large-tag-alphabet"), format!("no result for {x} (nor for {} other node(s)) which carries all requested tags; filter_nodes lists {filtered:?} — {ctx}", want.difference(&got).count() - 1), scenario.clone()));
            }
            if filtered != want {
                out.findings.push((format!("C19:filter-nodes:{k}:large-tag-alphabet"), format!("filter_nodes returned {filtered:?}, expected {want:?} — {ctx}"), scenario.clone()));
            }
            if out.findings.len() > before {
                return false;
            }
        }
        let mut keys = match &fleet {
            AnyFleet::Sync(f) => f.keys(),
            AnyFleet::Async(f) => rt.block_on(f.keys()),
        };
        keys.sort();
        let want: Vec<String> = (0..n).filter(|&i| member[i]).map(|i| names[i].clone()).collect();
        out.evals += 1;
        if keys != want {
            out.findings.push((format!("C19:membership:keys:{k}:large-tag-alphabet"), format!("keys() = {keys:?}, members are {want:?} — {hist}"), json!({"part": "tag-alphabet", "kind": k, "seed": seed, "which": which})));
            return false;
        }
        true
    };
    if at_construction > 0 && !step(&mut r, &member, &hist, out) {
        return;
    }
    for i in at_construction..n {
        let res = match &fleet {
            AnyFleet::Sync(f) => f.add_node(mk(i)),
            AnyFleet::Async(f) => rt.block_on(f.add_node(mk(i))),
        };
        if let Err(e) = res {
            out.findings.push((format!("C19:membership:add-node:{k}:large-tag-alphabet"), format!("add_node({}) failed: {e} — {hist}", names[i]), json!({"part": "tag-alphabet", "kind": k, "seed": seed, "which": which})));
            return;
        }
        member[i] = true;
        hist.push_str(&format!(", add_node({} with {} tags)", names[i], node_tags[i].len()));
    }
    if at_construction < n && !step(&mut r, &member, &hist, out) {
        return;
    }
    // one node leaves: its tags may now be carried by nobody
    let gone = r.usize_below(n);
    let removed = match &fleet {
        AnyFleet::Sync(f) => f.remove_node(&names[gone]),
        AnyFleet::Async(f) => rt.block_on(f.remove_node(&names[gone])),
    };
    out.evals += 1;
    if !removed {
        out.findings.push((format!("C19:membership:remove-node:{k}:large-tag-alphabet"), format!("remove_node({}) returned false for a member — {hist}", names[gone]), json!({"part": "tag-alphabet", "kind": k, "seed": seed, "which": which})));
        return;
    }
    member[gone] = false;
    hist.push_str(&format!(", remove_node({})", names[gone]));
    if step(&mut r, &member, &hist, out) {
        out.alphabet_fleets += 1;
    }
}

/// Dynamic membership: ONE fleet instance (and a clone of it) lives through a random history of add_node / remove_node /
/// broadcast / map_reduce / keys; the model is the current member -> tag-set map. What an earlier broadcast saw must not
/// influence a later one (state cached across operations), a removed node is never addressed again and an added one always is.
fn run_tag_history(kind: Kind, seed: u64, nodes: &[Arc<FakeNode>], rt: &tokio::runtime::Runtime, out: &mut TagOut) {
    let mut r = Rng::new(seed ^ 0xC19_7A65);
    let universe: [&'static str; 3] = ["a", "b", "c"];
    let all_subs = subsets(&universe);
    let mut qu = universe.to_vec();
    qu.push("zz");
    let queries = subsets(&qu);
    // few distinct requests per history so that the same request recurs around membership changes
    let hot: Vec<Vec<&'static str>> = (0..3).map(|_| queries[r.usize_below(queries.len())].clone()).collect();
    let timeout = Duration::from_secs(5);
    let opts = FleetOptions { default_timeout: timeout, retry_policy: RetryPolicy { max_attempts: 1, delay: Duration::from_millis(1) } };
    let names: Vec<String> = (0..nodes.len()).map(|i| format!("node{i}")).collect();
    let mut member_tags: Vec<Option<Vec<&'static str>>> = vec![None; nodes.len()];
    let first = r.usize_below(nodes.len());
    member_tags[first] = Some(all_subs[r.usize_below(all_subs.len())].clone());
    let cfgs = vec![node_config(&names[first], nodes[first].port, member_tags[first].as_ref().unwrap(), timeout)];
    let (fleet, twin) = match kind {
        Kind::Sync => {
            let f = Fleet::with_options(cfgs, opts).expect("fleet");
            (AnyFleet::Sync(f.clone()), AnyFleet::Sync(f))
        }
        Kind::Async => {
            let f = AsyncFleet::with_options(cfgs, opts).expect("fleet");
            (AnyFleet::Async(f.clone()), AnyFleet::Async(f))
        }
    };
    for nd in nodes {
        nd.reset(0);
    }
    let k = kind.name();
    let mut hist: Vec<String> = vec![format!("new[{}:{:?}]", names[first], member_tags[first].as_ref().unwrap())];
    let steps = 10 + r.usize_below(16);
    for _ in 0..steps {
        let which = if r.below(2) == 0 { &fleet } else { &twin };
        let i = r.usize_below(nodes.len());
        match r.below(12) {
            0..=2 => {
                let tags = all_subs[r.usize_below(all_subs.len())].clone();
                let c = node_config(&names[i], nodes[i].port, &tags, timeout);
                let res = match which {
                    AnyFleet::Sync(f) => f.add_node(c),
                    AnyFleet::Async(f) => rt.block_on(f.add_node(c)),
                };
                hist.push(format!("add[{}:{:?}]={}", names[i], tags, if res.is_ok() { "ok" } else { "err" }));
                out.evals += 1;
                let was_member = member_tags[i].is_some();
                if res.is_ok() == was_member {
                    out.findings.push((format!("C19:membership:add-node:{k}"), format!("add_node({}) returned {:?} although the node was {} — {k} history {}", names[i], res.map_err(|e| e.to_string()), if was_member { "already a member" } else { "not a member" }, hist.join(" ")), json!({"part": "tags-history", "kind": k, "seed": seed})));
                    return;
                }
                if !was_member {
                    member_tags[i] = Some(tags);
                }
            }
            3..=4 => {
                let res = match which {
                    AnyFleet::Sync(f) => f.remove_node(&names[i]),
                    AnyFleet::Async(f) => rt.block_on(f.remove_node(&names[i])),
                };
                hist.push(format!("remove[{}]={res}", names[i]));
                out.evals += 1;
                if res != member_tags[i].is_some() {
                    out.findings.push((format!("C19:membership:remove-node:{k}"), format!("remove_node({}) returned {res} — {k} history {}", names[i], hist.join(" ")), json!({"part": "tags-history", "kind": k, "seed": seed})));
                    return;
                }
                member_tags[i] = None;
            }
            5 => {
                let mut keys = match which {
                    AnyFleet::Sync(f) => f.keys(),
                    AnyFleet::Async(f) => rt.block_on(f.keys()),
                };
                keys.sort();
                let want: Vec<String> = (0..nodes.len()).filter(|&j| member_tags[j].is_some()).map(|j| names[j].clone()).collect();
                out.evals += 1;
                if keys != want {
                    out.findings.push((format!("C19:membership:keys:{k}"), format!("keys() = {keys:?}, members are {want:?} — {k} history {}", hist.join(" ")), json!({"part": "tags-history", "kind": k, "seed": seed})));
                    return;
                }
            }
            6 | 7 => {
                // connection-cache perturbations between broadcasts (no verdict on their own return values: the statement
                // speaks about calls and broadcasts; what they must not do is change whom the next broadcast addresses or
                // leave a node unreachable)
                let what = r.below(4);
                let name = ["disconnect_all", "connect_all", "reconnect_disconnected", "health_check"][what as usize];
                match (which, what) {
                    (AnyFleet::Sync(f), 0) => drop(f.disconnect_all()),
                    (AnyFleet::Sync(f), 1) => drop(f.connect_all()),
                    (AnyFleet::Sync(f), 2) => drop(f.reconnect_disconnected()),
                    (AnyFleet::Sync(f), _) => drop(f.health_check("/c19b/health")),
                    (AnyFleet::Async(f), 0) => drop(rt.block_on(f.disconnect_all())),
                    (AnyFleet::Async(f), 1) => drop(rt.block_on(f.connect_all())),
                    (AnyFleet::Async(f), 2) => drop(rt.block_on(f.reconnect_disconnected())),
                    (AnyFleet::Async(f), _) => drop(rt.block_on(f.health_check("/c19b/health"))),
                }
                hist.push(name.to_string());
                out.perturbations += 1;
                for nd in nodes {
                    let _ = drain_paths(nd);
                }
            }
            _ => {
                let mut q = if r.below(4) == 0 { queries[r.usize_below(queries.len())].clone() } else { hot[r.usize_below(hot.len())].clone() };
                if r.below(3) == 0 {
                    q.reverse();
                }
                let reduce = r.below(3) == 0;
                hist.push(format!("{}{:?}", if reduce { "map_reduce" } else { "broadcast" }, q));
                let before = out.findings.len();
                let hj = json!({"seed": seed, "steps": hist});
                one_broadcast(kind, which, rt, nodes, &member_tags, &q, None, reduce, r.below(2) == 0, &hj, &format!(" after history {}", hist.join(" ")), out);
                out.history_broadcasts += 1;
                if out.findings.len() > before {
                    return; // later steps of a history that already diverged add nothing
                }
            }
        }
    }
    out.histories += 1;
}

fn run_tags(args: &Args) -> Report {
    let mut rep = Report::new(
        args,
        "c19-tags",
        "every assignment of tag subsets (universe of 2 tags quick / 3 tags thorough) to 1..=4 fake nodes x every requested \
         subset of the universe plus an unknown tag, through broadcast_json and map_reduce_json (with and without params) and \
         filter_nodes, for Fleet and AsyncFleet; plus passes with one node down; oracle: result names = nodes carrying ALL \
         requested tags, one result each holding that node's own reply, and on the node side exactly one request at each \
         addressed node and none elsewhere; distinct = (kind, node tag sets, requested set, down node, entry point). Plus dynamic-membership histories (600 quick / 6000 thorough): one fleet \
         and a clone of it through random add_node / remove_node / keys / disconnect_all / connect_all / reconnect_disconnected / health_check / broadcast / map_reduce steps with a few recurring \
         requests, every broadcast judged the same way against the member -> tags model at that moment. Plus large tag alphabets: fleets whose nodes carry 1, 2, 63, 64, 65, 66, 100, 130, 300 distinct tags in total \
         (nodes registered at construction and through add_node, one removed; nobody listens, a refused node still yields its result), requests naming early, late, several and unknown tags; \
         addressed set (result keys), filter_nodes and keys against the member -> tags model",
    );
    install_probe(); // only counts: fleet.attempt fires on broadcast threads that carry no case
    let (cfgs, space) = if args.thorough() {
        ({ let mut c = tag_configs(&["a", "b", "c"], 4); c.extend(tag_configs(&["a", " a", ""], 3)); c }, "all 4680 assignments of subsets of {a,b,c} to 1..=4 nodes x all 16 subsets of {a,b,c,zz}")
    } else {
        let mut c = tag_configs(&["a", "b"], 4);
        c.extend(tag_configs(&["a", "b", "c"], 3));
        // tags are opaque strings: "a", " a" and the empty string are three different tags
        c.extend(tag_configs(&["a", " a", ""], 2));
        (c, "all 340 assignments of subsets of {a,b} to 1..=4 nodes x all 8 subsets of {a,b,zz}, and all 584 assignments of subsets of {a,b,c} to 1..=3 nodes x all 16 subsets of {a,b,c,zz}")
    };
    let cfgs = Arc::new(cfgs);
    let histories: usize = if args.thorough() { 6000 } else { 600 };
    let seed = args.seed;
    let total = cfgs.len() * 2 + histories;
    let next = Arc::new(AtomicUsize::new(0));
    let deadline = Instant::now() + Duration::from_secs(if args.thorough() { 300 } else { 35 });
    let workers = if args.thorough() { 12 } else { 6 };
    let (tx, rx) = mpsc::channel::<TagOut>();
    let mut handles = vec![];
    for _ in 0..workers {
        let (cfgs, next, tx) = (cfgs.clone(), next.clone(), tx.clone());
        handles.push(std::thread::spawn(move || {
            let mut out = TagOut::default();
            let nodes: Vec<Arc<FakeNode>> = match (0..4).map(|i| FakeNode::start(&format!("node{i}")).map(Arc::new)).collect::<Result<Vec<_>, _>>() {
                Ok(n) => n,
                Err(e) => {
                    out.inconclusive.push(format!("harness: {e}"));
                    let _ = tx.send(out);
                    return;
                }
            };
            let rt = tokio::runtime::Builder::new_multi_thread().worker_threads(2).enable_all().build().expect("runtime");
            loop {
                let idx = next.fetch_add(1, Ordering::Relaxed);
                if idx >= cfgs.len() * 2 + histories || Instant::now() > deadline {
                    break;
                }
                let kind = if idx % 2 == 0 { Kind::Sync } else { Kind::Async };
                if idx < histories {
                    // dynamic-membership histories first: they are the cheap part and must not be starved by the budget
                    run_tag_history(kind, seed.wrapping_mul(1_000_003).wrapping_add(idx as u64), &nodes, &rt, &mut out);
                    if idx % 10 < 2 {
                        run_big_fleet(kind, seed.wrapping_mul(1_000_003).wrapping_add(idx as u64), &nodes, &rt, &mut out);
                    }
                    if idx % 10 == 4 || idx % 10 == 5 {
                        run_tag_alphabet(kind, seed.wrapping_mul(1_000_003).wrapping_add(idx as u64), idx / 10, &rt, &mut out);
                    }
                } else {
                    let idx = idx - histories;
                    run_tag_config(kind, &cfgs[idx / 2], idx / 2, &nodes, &rt, &mut out);
                }
                if out.findings.len() > 200 {
                    out.findings.truncate(200);
                }
            }
            let _ = tx.send(out);
        }));
    }
    drop(tx);
    for o in rx {
        for _ in 0..o.evals {
            rep.eval();
        }
        for d in o.distinct {
            rep.distinct(&d);
        }
        rep.count("broadcasts", o.broadcasts);
        rep.count("results_checked", o.results_checked);
        rep.count("node_side_requests_matched", o.node_requests);
        rep.count("passes_with_a_node_down", o.down_node_cases);
        rep.count("membership_histories_completed", o.histories);
        rep.count("broadcasts_with_a_silent_closing_or_erroring_node", o.misbehaving_node_cases);
        rep.count("short_timeout_broadcasts_discarded_because_a_healthy_node_timed_out", o.discarded_short_timeout);
        rep.count("connection_cache_perturbations_inside_histories", o.perturbations);
        rep.count("broadcasts_to_fleets_of_5_to_65_nodes", o.big_fleet_broadcasts);
        rep.count("broadcasts_inside_membership_histories", o.history_broadcasts);
        rep.count("broadcasts_to_fleets_with_1_to_300_distinct_tags", o.alphabet_broadcasts);
        rep.count("large_tag_alphabet_fleets_completed", o.alphabet_fleets);
        for (sig, detail, sc) in o.findings {
            rep.violation(sig, detail, sc);
        }
        for i in o.inconclusive {
            rep.inconclusive(i);
        }
    }
    for h in handles {
        let _ = h.join();
    }
    repe::verif_hooks::set_probe(None);
    let configs_done = next.load(Ordering::Relaxed).min(total) as u64;
    rep.set("fleet_configs_planned", json!(total));
    rep.set("fleet_configs_started", json!(configs_done));
    rep.set("probe_hits_on_broadcast_threads", json!(PROBE_OUTSIDE.load(Ordering::Relaxed)));
    let complete = Instant::now() <= deadline;
    rep.exhaustive = Some(complete);
    rep.set("space", json!(format!("{space} x {{Fleet, AsyncFleet}} x {{broadcast_json, map_reduce_json}} alternating")));
    if !complete {
        rep.inconclusive("stopped at the wall-clock budget before all tag configurations ran");
    }
    if rep.evaluations == 0 {
        rep.inconclusive("no broadcast ran");
    }
    rep
}

pub fn run(args: &Args) -> Report {
    if args.stage.starts_with("tags") {
        run_tags(args)
    } else {
        run_retry(args)
    }
}
