// C04 family `long-history`: hundreds of ordinary calls on ONE connection after calls that ended unusually.
//
// The other families use a connection for one short scenario after the other; whatever a call leaves behind when it
// does not end by receiving its response is never carried far. Here one connection per client lives through:
//
// 1. calls that end UNUSUALLY, issued together with a few ordinary ones: calls with a short timeout whose response
//    never arrives, arrives much later (after more than a hundred further calls) or arrives later twice; calls
//    cancelled while in flight (AsyncClient / WebSocketClient: the task is aborted; response never / late); calls that
//    fail locally after drawing their id (body cannot be serialized, nothing reaches the wire);
// 2. at least 330 ordinary calls, alone and in concurrent waves of up to 16, every one answered at once (permuted
//    within the wave); the id counter passes 2^8 on the way and every residue class of the ids modulo 64, 128 and 256
//    is visited several times;
// 3. some 65 000 `notify_json` requests (they draw ids and need no answer), so that the id counter stands just below
//    2^16;
// 4. another 270 ordinary calls, whose ids cross 2^16, with the late responses of step 1 long gone.
//
// Oracle (`judge_history`): every call of steps 2 and 4 that the fake server answered (frame completely written, the
// connection never closed by the server) returns exactly its own response; an error or anything else is a violation.
// A call that does not return is judged on events, not on time: the fake server sends a sentinel frame behind the
// wave; once the reader's `received` probe has seen the sentinel, a call whose response frame the reader has
// `received` without ever reaching `before_deliver` for it (and without the call having given up) cannot get its
// response any more: violation `response-consumed-but-not-delivered`. Without that evidence it is inconclusive. All
// request ids seen on the connection (the 65 000 notifies included) are pairwise distinct.
//
// The three connections (blocking, async, WebSocket) run in parallel; the probe keeps one event log per client kind
// (`KLOG`), so their ids, which all start at 1, do not get mixed up.

use super::trickle::{TApi, TCli, TPeer, TRes, kind_char, show_tres, t_connect, t_issue, t_val, ws_header};
use super::*;

const GHOST_TIMEOUT: Duration = Duration::from_millis(200);

#[derive(Clone, Copy, PartialEq, Eq, Hash, Debug)]
enum Ghost {
    TimeoutNever,
    TimeoutLate,
    TimeoutTwice,
    CancelNever,
    CancelLate,
    LocalFail,
}

impl Ghost {
    fn name(self) -> &'static str {
        match self {
            Ghost::TimeoutNever => "timed out, response never sent",
            Ghost::TimeoutLate => "timed out, response sent much later",
            Ghost::TimeoutTwice => "timed out, response sent later twice",
            Ghost::CancelNever => "cancelled in flight, response never sent",
            Ghost::CancelLate => "cancelled in flight, response sent much later",
            Ghost::LocalFail => "failed locally (body not serializable), nothing on the wire",
        }
    }
    fn key(self) -> &'static str {
        match self {
            Ghost::TimeoutNever => "timeout_response_never",
            Ghost::TimeoutLate => "timeout_response_late",
            Ghost::TimeoutTwice => "timeout_response_late_twice",
            Ghost::CancelNever => "cancelled_response_never",
            Ghost::CancelLate => "cancelled_response_late",
            Ghost::LocalFail => "failed_locally",
        }
    }
}

struct Unserializable;
impl serde::Serialize for Unserializable {
    fn serialize<S: serde::Serializer>(&self, _ser: S) -> Result<S::Ok, S::Error> {
        Err(serde::ser::Error::custom("harness: body cannot be serialized"))
    }
}

#[derive(Clone, Debug)]
struct LCall {
    tok: String,
    ghost: Option<Ghost>,
    api: TApi,
    id: Option<u64>,
    query: Vec<u8>,
    /// the answer the fake server built for it
    json: Option<Value>,
    answers_written: u32,
    /// ordinary calls done before the (first) late answer was sent
    late_after_calls: Option<usize>,
    wave: usize,
    cancelled: bool,
    out: Option<(TRes, bool)>,
    /// reader consumed the response, never delivered it (event evidence)
    consumed_not_delivered: Option<String>,
}

pub(super) struct LHist {
    kind: Kind,
    index: u64,
    salt: u64,
    setup_err: Option<String>,
    trouble: Option<String>,
    calls: Vec<LCall>,
    dup_ids: Vec<u64>,
    ids_seen: usize,
    max_id: u64,
    notifies_burned: u64,
    notify_burst_ms: u64,
    window_expired: bool,
    write_err: Option<String>,
    ordinary_before_burst: usize,
    ms: u64,
}

fn kidx(kind: Kind) -> usize {
    match kind {
        Kind::B => 0,
        Kind::A => 1,
        Kind::W => 2,
    }
}

fn klog_clear(kind: Kind) {
    KLOG[kidx(kind)].lock().unwrap_or_else(|e| e.into_inner()).clear();
}

fn klog_snapshot(kind: Kind) -> Vec<(u8, u64)> {
    KLOG[kidx(kind)].lock().unwrap_or_else(|e| e.into_inner()).clone()
}

struct LRun<'a> {
    rt: &'a Runtime,
    kind: Kind,
    cli: TCli,
    peer: TPeer,
    tx: mpsc::Sender<(usize, TRes)>,
    rx: mpsc::Receiver<(usize, TRes)>,
    rng: Rng,
    h: LHist,
    seen: HashSet<u64>,
    sentinel_ctr: u64,
    aborts: Vec<(usize, tokio::task::JoinHandle<()>)>,
}

impl LRun<'_> {
    fn drain(&mut self, late: bool) {
        while let Ok((tag, r)) = self.rx.try_recv() {
            if tag < self.h.calls.len() && self.h.calls[tag].out.is_none() {
                self.h.calls[tag].out = Some((r, late));
            }
        }
    }

    /// Until every call in `want` has a result, or `until`.
    fn wait(&mut self, want: &[usize], until: Instant, late: bool) -> bool {
        loop {
            self.drain(late);
            if want.iter().all(|t| self.h.calls[*t].out.is_some()) {
                return true;
            }
            let now = Instant::now();
            if now >= until {
                return false;
            }
            match self.rx.recv_timeout((until - now).min(Duration::from_millis(100))) {
                Ok((tag, r)) => {
                    if tag < self.h.calls.len() && self.h.calls[tag].out.is_none() {
                        self.h.calls[tag].out = Some((r, late));
                    }
                }
                Err(mpsc::RecvTimeoutError::Timeout) => {}
                Err(_) => return false,
            }
        }
    }

    fn send(&mut self, frames: &[Vec<u8>]) -> Result<(), String> {
        let mut all: Vec<u8> = vec![];
        for f in frames {
            if self.kind == Kind::W {
                all.extend_from_slice(&ws_header(true, 2, f.len()));
            }
            all.extend_from_slice(f);
        }
        self.peer.stream().write_all(&all).map_err(|e| {
            let e = e.to_string();
            self.h.write_err = Some(e.clone());
            format!("server write: {e}")
        })
    }

    fn book_request(&mut self, f: &oracle::Frame) -> Result<Option<usize>, String> {
        if !self.seen.insert(f.header.id) {
            self.h.dup_ids.push(f.header.id);
        }
        self.h.max_id = self.h.max_id.max(f.header.id);
        if f.header.notify != 0 {
            return Ok(None);
        }
        let tag = serde_json::from_slice::<Value>(&f.body).ok().and_then(|v| Some((v.get("slot")?.as_u64()? as usize, v.get("tok")?.as_str()?.to_string())));
        match tag {
            Some((t, tok)) if t < self.h.calls.len() && self.h.calls[t].tok == tok && self.h.calls[t].id.is_none() => {
                self.h.calls[t].id = Some(f.header.id);
                self.h.calls[t].query = f.query.clone();
                Ok(Some(t))
            }
            _ => Err(format!("a request that does not belong to this history reached the fake server: id {} query {:?}", f.header.id, String::from_utf8_lossy(&f.query))),
        }
    }

    fn new_call(&mut self, ghost: Option<Ghost>, api: TApi, wave: usize) -> usize {
        let t = self.h.calls.len();
        let tok = format!("l{}{}-{t}-{:x}", kind_char(self.kind), self.h.index, mix(self.h.salt ^ (t as u64) << 24) & 0xffff_ffff);
        self.h.calls.push(LCall { tok, ghost, api, id: None, query: vec![], json: None, answers_written: 0, late_after_calls: None, wave, cancelled: false, out: None, consumed_not_delivered: None });
        t
    }

    fn answer_frame(&mut self, t: usize) -> Vec<u8> {
        let c = &mut self.h.calls[t];
        let id = c.id.unwrap_or(0);
        let v = json!({"id": id, "tok": c.tok, "k": "resp"});
        c.json = Some(v.clone());
        mk_frame(id, false, &c.query, &v)
    }

    /// Issue the ghost / ordinary call `t`.
    fn issue(&mut self, t: usize) {
        let (tok, ghost, api) = (self.h.calls[t].tok.clone(), self.h.calls[t].ghost, self.h.calls[t].api);
        let path = format!("/c04/l{t}");
        let body = json!({"tok": tok, "slot": t});
        let tx = self.tx.clone();
        match ghost {
            None => t_issue(self.rt, &self.cli, t, api, path, body, tx),
            Some(Ghost::TimeoutNever | Ghost::TimeoutLate | Ghost::TimeoutTwice) => match &self.cli {
                TCli::B(c) => {
                    let c = c.clone();
                    let _ = std::thread::Builder::new().name("c04-history-caller".into()).spawn(move || {
                        let r = catching(|| t_val(c.call_json_with_timeout(&path, &body, GHOST_TIMEOUT))).unwrap_or_else(|p| TRes::Err(ErrInfo { class: format!("panic.{}", panic_site(&p)), text: trunc(&p, 200), mismatch: None }));
                        drop(c);
                        let _ = tx.send((t, r));
                    });
                }
                TCli::A(c) => {
                    let c = c.clone();
                    self.rt.spawn(async move {
                        let r = t_val(c.call_json_with_timeout(&path, &body, GHOST_TIMEOUT).await);
                        drop(c);
                        let _ = tx.send((t, r));
                    });
                }
                TCli::W(c) => {
                    let c = c.clone();
                    self.rt.spawn(async move {
                        let r = t_val(c.call_json_with_timeout(&path, &body, GHOST_TIMEOUT).await);
                        drop(c);
                        let _ = tx.send((t, r));
                    });
                }
            },
            Some(Ghost::CancelNever | Ghost::CancelLate) => match &self.cli {
                TCli::A(c) => {
                    let c = c.clone();
                    let jh = self.rt.spawn(async move {
                        let r = t_val(c.call_json(&path, &body).await);
                        let _ = tx.send((t, r));
                    });
                    self.aborts.push((t, jh));
                }
                TCli::W(c) => {
                    let c = c.clone();
                    let jh = self.rt.spawn(async move {
                        let r = t_val(c.call_json(&path, &body).await);
                        let _ = tx.send((t, r));
                    });
                    self.aborts.push((t, jh));
                }
                TCli::B(_) => {}
            },
            Some(Ghost::LocalFail) => match &self.cli {
                TCli::B(c) => {
                    let r = t_val(c.call_json(&path, &Unserializable));
                    let _ = tx.send((t, r));
                }
                TCli::A(c) => {
                    let r = t_val(self.rt.block_on(c.call_json(&path, &Unserializable)));
                    let _ = tx.send((t, r));
                }
                TCli::W(c) => {
                    let r = t_val(self.rt.block_on(c.call_json(&path, &Unserializable)));
                    let _ = tx.send((t, r));
                }
            },
        }
    }

    /// Requests of `tags` from the wire (bounded).
    fn collect_requests(&mut self, tags: &[usize], ghosts_may_be_missing: bool) -> Result<(), String> {
        let until = Instant::now() + REQ_WINDOW;
        loop {
            let missing: Vec<usize> = tags.iter().copied().filter(|t| self.h.calls[*t].id.is_none()).collect();
            if missing.is_empty() {
                return Ok(());
            }
            // a call that gave up before it wrote anything never shows up
            if ghosts_may_be_missing {
                self.drain(false);
                if missing.iter().all(|t| self.h.calls[*t].ghost.is_some() && self.h.calls[*t].out.is_some()) {
                    return Ok(());
                }
            }
            if Instant::now() >= until {
                return Err(format!("{} request(s) did not reach the fake server inside {} s", missing.len(), REQ_WINDOW.as_secs()));
            }
            if let Some(f) = self.peer.recv(Instant::now() + Duration::from_millis(150))? {
                self.book_request(&f)?;
            }
        }
    }

    /// A wave of ordinary calls: issue, collect, (inject), answer permuted, wait for the results. Ok(false): stop.
    fn wave(&mut self, wave: usize, size: usize, inject: Vec<Vec<u8>>) -> Result<bool, String> {
        klog_clear(self.kind);
        let tags: Vec<usize> = (0..size)
            .map(|_| {
                let api = *self.rng.pick(&[TApi::Json, TApi::Json, TApi::JsonT, TApi::Msg, TApi::MsgNoT]);
                self.new_call(None, api, wave)
            })
            .collect();
        for t in &tags {
            self.issue(*t);
        }
        self.collect_requests(&tags, false)?;
        let mut order = tags.clone();
        self.rng.shuffle(&mut order);
        let mut frames: Vec<Vec<u8>> = vec![];
        let inject_at = self.rng.usize_below(order.len() + 1);
        for (i, t) in order.iter().enumerate() {
            if i == inject_at {
                frames.extend(inject.iter().cloned());
            }
            frames.push(self.answer_frame(*t));
        }
        if inject_at == order.len() {
            frames.extend(inject.iter().cloned());
        }
        if self.rng.coin() {
            self.send(&frames)?;
        } else {
            for f in &frames {
                self.send(std::slice::from_ref(f))?;
            }
        }
        for t in &order {
            self.h.calls[*t].answers_written += 1;
        }
        if self.wait(&tags, Instant::now() + Duration::from_millis(500), false) {
            return Ok(true);
        }
        // somebody is still waiting: put a sentinel behind the wave and look at what the reader did with the frames
        self.sentinel_ctr += 1;
        let sid = SENT_BASE + (1 << 32) + self.sentinel_ctr;
        let s = mk_frame(sid, false, b"/c04/sentinel", &json!({"id": sid, "tok": "sentinel", "k": "unk"}));
        self.send(&[s])?;
        let until = Instant::now() + CALL_WINDOW;
        loop {
            if self.wait(&tags, Instant::now() + Duration::from_millis(100), false) {
                return Ok(true);
            }
            let ev = klog_snapshot(self.kind);
            let sentinel_at = ev.iter().position(|e| e.0 == P_RECEIVED && e.1 == sid);
            if let Some(sp) = sentinel_at {
                let mut all_hopeless = true;
                for t in &tags {
                    if self.h.calls[*t].out.is_some() {
                        continue;
                    }
                    let id = self.h.calls[*t].id.unwrap_or(0);
                    let received = ev[..sp].iter().filter(|e| e.0 == P_RECEIVED && e.1 == id).count();
                    let delivered = ev.iter().any(|e| e.0 == P_BEFORE_DELIVER && e.1 == id);
                    let gave_up = ev.iter().any(|e| e.0 == P_TIMEOUT_REMOVE && e.1 == id);
                    let registered_first = matches!((ev.iter().position(|e| e.0 == P_REGISTERED && e.1 == id), ev.iter().position(|e| e.0 == P_RECEIVED && e.1 == id)), (Some(a), Some(b)) if a < b);
                    if received >= 1 && !delivered && !gave_up && registered_first {
                        self.h.calls[*t].consumed_not_delivered = Some(format!("the reader's probes show: call registered, then frame with id {id} received ({received}x), then the sentinel frame behind it received, the deliver point for id {id} never reached, the call had not given up"));
                    } else {
                        all_hopeless = false;
                    }
                }
                if all_hopeless {
                    return Ok(false);
                }
            }
            if Instant::now() >= until {
                self.h.window_expired = true;
                return Ok(false);
            }
        }
    }
}

fn run_history(rt: &Runtime, seed: u64, kind: Kind, index: u64, salt: u64, cross_2_16: bool) -> LHist {
    let t0 = Instant::now();
    let h = LHist { kind, index, salt, setup_err: None, trouble: None, calls: vec![], dup_ids: vec![], ids_seen: 0, max_id: 0, notifies_burned: 0, notify_burst_ms: 0, window_expired: false, write_err: None, ordinary_before_burst: 0, ms: 0 };
    let (cli, peer) = match t_connect(rt, kind) {
        Ok(x) => x,
        Err(e) => {
            let mut h = h;
            h.setup_err = Some(e);
            return h;
        }
    };
    let (tx, rx) = mpsc::channel::<(usize, TRes)>();
    let mut run = LRun { rt, kind, cli, peer, tx, rx, rng: Rng::new(seed ^ salt.rotate_left(31) ^ 0x0C04_1057), h, seen: HashSet::new(), sentinel_ctr: 0, aborts: vec![] };
    KLOG_REC[kidx(kind)].store(true, Ordering::SeqCst);
    klog_clear(kind);
    let r = (|| -> Result<(), String> {
        // 1. calls that end unusually, mixed with ordinary ones
        let mut plan: Vec<Option<Ghost>> = vec![Some(Ghost::TimeoutNever), Some(Ghost::TimeoutNever), Some(Ghost::TimeoutNever), Some(Ghost::TimeoutLate), Some(Ghost::TimeoutTwice), Some(Ghost::LocalFail), Some(Ghost::LocalFail), None, None, None];
        if kind == Kind::B {
            plan.extend([Some(Ghost::TimeoutNever), Some(Ghost::TimeoutLate)]);
        } else {
            plan.extend([Some(Ghost::CancelNever), Some(Ghost::CancelNever), Some(Ghost::CancelLate)]);
        }
        for _ in 0..run.rng.usize_below(4) {
            plan.push(None);
        }
        run.rng.shuffle(&mut plan);
        let tags: Vec<usize> = plan.iter().map(|g| run.new_call(*g, if g.is_some() { TApi::JsonT } else { TApi::Json }, 0)).collect();
        for t in &tags {
            run.issue(*t);
        }
        let on_wire: Vec<usize> = tags.iter().copied().filter(|t| run.h.calls[*t].ghost != Some(Ghost::LocalFail)).collect();
        run.collect_requests(&on_wire, true)?;
        // the ordinary ones are answered, the others are left alone
        let ordinary: Vec<usize> = tags.iter().copied().filter(|t| run.h.calls[*t].ghost.is_none()).collect();
        let frames: Vec<Vec<u8>> = ordinary.iter().map(|t| run.answer_frame(*t)).collect();
        run.send(&frames)?;
        for t in &ordinary {
            run.h.calls[*t].answers_written += 1;
        }
        // cancelled calls: aborted while in flight (their request is at the server)
        for (t, jh) in std::mem::take(&mut run.aborts) {
            jh.abort();
            let _ = rt.block_on(async { tokio::time::timeout(Duration::from_secs(5), jh).await });
            run.h.calls[t].cancelled = true;
        }
        // everybody who will ever return from step 1 has returned (timeouts: 200 ms)
        let returning: Vec<usize> = tags.iter().copied().filter(|t| !run.h.calls[*t].cancelled).collect();
        if !run.wait(&returning, Instant::now() + CALL_WINDOW, false) {
            run.h.window_expired = true;
            return Ok(());
        }
        let late_once: Vec<usize> = tags.iter().copied().filter(|t| matches!(run.h.calls[*t].ghost, Some(Ghost::TimeoutLate | Ghost::CancelLate | Ghost::TimeoutTwice)) && run.h.calls[*t].id.is_some()).collect();
        let late_twice: Vec<usize> = tags.iter().copied().filter(|t| run.h.calls[*t].ghost == Some(Ghost::TimeoutTwice) && run.h.calls[*t].id.is_some()).collect();
        let mut late_once_at = 110 + run.rng.usize_below(60);
        let mut late_twice_at = 200 + run.rng.usize_below(60);

        // 2. and 4. ordinary calls, 3. the notify burst in between
        let mut ordinary_done = 0usize;
        let mut wave = 1usize;
        for (phase, target) in [(0usize, 330usize), (1, 270)] {
            if phase == 1 {
                if !cross_2_16 {
                    break;
                }
                // 3. draw ids without answers until the counter stands 120 below 2^16
                let n = (65536u64 - 120).saturating_sub(run.h.max_id);
                KLOG_MUTE[kidx(kind)].store(true, Ordering::SeqCst);
                let tb = Instant::now();
                let (dtx, drx) = mpsc::channel::<Result<(), String>>();
                match &run.cli {
                    TCli::B(c) => {
                        let c = c.clone();
                        let _ = std::thread::Builder::new().name("c04-history-notifier".into()).spawn(move || {
                            let mut r = Ok(());
                            for i in 0..n {
                                if let Err(e) = c.notify_json("/c04/burn", &json!(i)) {
                                    r = Err(e.to_string());
                                    break;
                                }
                            }
                            let _ = dtx.send(r);
                        });
                    }
                    TCli::A(c) => {
                        let c = c.clone();
                        rt.spawn(async move {
                            let mut r = Ok(());
                            for i in 0..n {
                                if let Err(e) = c.notify_json("/c04/burn", &json!(i)).await {
                                    r = Err(e.to_string());
                                    break;
                                }
                            }
                            let _ = dtx.send(r);
                        });
                    }
                    TCli::W(c) => {
                        let c = c.clone();
                        rt.spawn(async move {
                            let mut r = Ok(());
                            for i in 0..n {
                                if let Err(e) = c.notify_json("/c04/burn", &json!(i)).await {
                                    r = Err(e.to_string());
                                    break;
                                }
                            }
                            let _ = dtx.send(r);
                        });
                    }
                }
                let until = Instant::now() + Duration::from_secs(40);
                let mut got = 0u64;
                while got < n {
                    if Instant::now() >= until {
                        return Err(format!("only {got} of {n} notify requests reached the fake server inside 40 s"));
                    }
                    if let Ok(Err(e)) = drx.try_recv() {
                        return Err(format!("notify_json failed after {got} notifies: {e}"));
                    }
                    if let Some(f) = run.peer.recv(Instant::now() + Duration::from_millis(200))? {
                        if f.header.notify == 0 {
                            return Err(format!("a request (id {}) arrived in the middle of the notify burst", f.header.id));
                        }
                        run.book_request(&f)?;
                        got += 1;
                    }
                }
                run.h.notifies_burned = got;
                run.h.notify_burst_ms = tb.elapsed().as_millis() as u64;
                KLOG_MUTE[kidx(kind)].store(false, Ordering::SeqCst);
            }
            let mut done_here = 0usize;
            while done_here < target {
                let size = (*run.rng.pick(&[1usize, 1, 1, 1, 2, 3, 4, 8, 16])).min(target - done_here);
                let mut inject: Vec<Vec<u8>> = vec![];
                if ordinary_done >= late_once_at {
                    late_once_at = usize::MAX;
                    for t in &late_once {
                        inject.push(run.answer_frame(*t));
                        run.h.calls[*t].answers_written += 1;
                        run.h.calls[*t].late_after_calls = Some(ordinary_done);
                    }
                }
                if ordinary_done >= late_twice_at {
                    late_twice_at = usize::MAX;
                    for t in &late_twice {
                        inject.push(run.answer_frame(*t));
                        run.h.calls[*t].answers_written += 1;
                    }
                }
                let go_on = run.wave(wave, size, inject)?;
                wave += 1;
                done_here += size;
                ordinary_done += size;
                if phase == 0 {
                    run.h.ordinary_before_burst = ordinary_done;
                }
                if !go_on {
                    return Ok(());
                }
            }
        }
        Ok(())
    })();
    if let Err(e) = r {
        run.h.trouble = Some(e);
    }
    KLOG_REC[kidx(kind)].store(false, Ordering::SeqCst);
    KLOG_MUTE[kidx(kind)].store(false, Ordering::SeqCst);
    run.peer.close();
    let waiting: Vec<usize> = (0..run.h.calls.len()).filter(|t| run.h.calls[*t].out.is_none() && !run.h.calls[*t].cancelled && run.h.calls[*t].ghost != Some(Ghost::CancelNever) && run.h.calls[*t].ghost != Some(Ghost::CancelLate)).collect();
    if !waiting.is_empty() {
        run.wait(&waiting, Instant::now() + Duration::from_secs(6), true);
    }
    let LRun { cli, peer, mut h, seen, .. } = run;
    {
        let _g = rt.enter();
        drop(cli);
    }
    drop(peer);
    h.ids_seen = seen.len();
    h.ms = t0.elapsed().as_millis() as u64;
    h
}

#[derive(Default)]
struct LVerdict {
    violations: Vec<(String, String)>,
    inconclusive: Vec<String>,
    counts: Vec<(String, u64)>,
    timeouts: u64,
}

fn judge_history(h: &LHist, stall_ms: u64) -> LVerdict {
    let mut v = LVerdict::default();
    let k = h.kind.name();
    let sigp = format!("C04:{k}:long-history");
    let mut counts: Vec<(String, u64)> = vec![];
    let mut cnt = |key: String, n: u64| counts.push((key, n));
    if let Some(e) = &h.setup_err {
        v.inconclusive.push(format!("long-history #{} ({k}): could not set up the connection: {e}", h.index));
        return v;
    }
    for id in h.dup_ids.iter().take(3) {
        v.violations.push((format!("C04:{k}:duplicate-request-id"), format!("request id {id} had already been used on this connection ({} ids seen, largest {})", h.ids_seen, h.max_id)));
    }
    if let Some(t) = &h.trouble {
        v.inconclusive.push(format!("long-history #{} ({k}): harness trouble: {t} (stall {stall_ms} ms)", h.index));
    }
    cnt(format!("long_history_connections_{k}"), 1);
    cnt(format!("long_history_distinct_request_ids_seen_{k}"), h.ids_seen as u64);
    cnt(format!("long_history_notify_requests_drawing_ids_{k}"), h.notifies_burned);
    let ghosts: Vec<&LCall> = h.calls.iter().filter(|c| c.ghost.is_some()).collect();
    let ghost_line = ghosts
        .iter()
        .map(|c| format!("id {:?}: {}{}", c.id, c.ghost.map(|g| g.name()).unwrap_or(""), c.late_after_calls.map(|n| format!(" (sent after {n} further calls, {}x in all)", c.answers_written)).unwrap_or_default()))
        .collect::<Vec<_>>()
        .join("; ");
    let tok_owner: HashMap<&str, usize> = h.calls.iter().enumerate().map(|(i, c)| (c.tok.as_str(), i)).collect();
    for c in &ghosts {
        let g = c.ghost.unwrap();
        match &c.out {
            Some((TRes::Err(e), _)) => {
                cnt(format!("long_history_calls_ended_{}_{k}", g.key()), 1);
                if matches!(g, Ghost::TimeoutNever) && c.id.is_some() && e.class == "Io.TimedOut" {
                    cnt(format!("long_history_timeouts_whose_response_never_arrived_{k}"), 1);
                }
            }
            Some((TRes::Val(val), _)) if c.json.as_ref() == Some(val) => cnt("long_history_ending_calls_that_got_their_late_response_in_time".into(), 1),
            Some((other, _)) => v.violations.push((format!("{sigp}:ending-call:foreign-response"), format!("the call with id {:?} ({}) returned {}, which the fake server never sent for it; calls that ended unusually on this connection: {ghost_line}", c.id, g.name(), show_tres(other)))),
            None if c.cancelled => cnt(format!("long_history_calls_ended_{}_{k}", g.key()), 1),
            None => {}
        }
    }
    let mut returned_own = 0u64;
    let (mut seen_mod64, mut seen_mod128, mut seen_mod256): (HashSet<u64>, HashSet<u64>, HashSet<u64>) = (HashSet::new(), HashSet::new(), HashSet::new());
    let (mut above_2_8, mut above_2_16) = (0u64, 0u64);
    for (t, c) in h.calls.iter().enumerate().filter(|(_, c)| c.ghost.is_none()) {
        let Some(id) = c.id else { continue };
        if c.answers_written == 0 {
            continue;
        }
        let before = h.calls[..t].iter().filter(|x| x.ghost.is_none()).count();
        let congruent = |m: u64| -> Vec<u64> { ghosts.iter().filter_map(|g| g.id).filter(|g| g % m == id % m).collect() };
        let who = format!(
            "ordinary call number {} on the connection (api {:?}, request id {id}, token {}), issued after the calls that ended unusually ({ghost_line}) and after {before} further ordinary calls{}; ids of calls that ended unusually congruent to {id} modulo 64: {:?}, modulo 128: {:?}, modulo 256: {:?}",
            before + 1,
            c.api,
            c.tok,
            if h.notifies_burned > 0 && before >= h.ordinary_before_burst { format!(" and {} notify requests", h.notifies_burned) } else { String::new() },
            congruent(64),
            congruent(128),
            congruent(256),
        );
        match &c.out {
            None => {
                if let Some(ev) = &c.consumed_not_delivered {
                    v.violations.push((format!("{sigp}:response-consumed-but-not-delivered"), format!("{who}: the fake server answered it at once (frame completely written, connection open), but the call never got its response: {ev}")));
                } else {
                    v.timeouts += 1;
                    v.inconclusive.push(format!("long-history #{} ({k}): ordinary call with id {id} produced no result inside the harness bound and there is no event evidence of a lost response (stall {stall_ms} ms)", h.index));
                }
            }
            Some((res, late)) => {
                let own = match res {
                    TRes::Val(val) => Some(c.json.as_ref() == Some(val)),
                    TRes::Msg { id: rid, notify, ec, body, .. } => Some(*rid == id && *notify == 0 && *ec == 0 && c.json.as_ref().map(|j| serde_json::to_vec(j).unwrap()) == Some(body.clone())),
                    TRes::Err(_) => None,
                };
                match (own, res) {
                    (Some(true), _) => {
                        returned_own += 1;
                        seen_mod64.insert(id % 64);
                        seen_mod128.insert(id % 128);
                        seen_mod256.insert(id % 256);
                        if id >= 256 {
                            above_2_8 += 1;
                        }
                        if id >= 65536 {
                            above_2_16 += 1;
                        }
                    }
                    (Some(false), _) => {
                        let tok = match res {
                            TRes::Val(val) => val.get("tok").and_then(|t| t.as_str()).map(|s| s.to_string()),
                            TRes::Msg { body, .. } => serde_json::from_slice::<Value>(body).ok().and_then(|b| b.get("tok").and_then(|t| t.as_str()).map(|s| s.to_string())),
                            TRes::Err(_) => None,
                        };
                        let owner = tok.as_deref().and_then(|t| tok_owner.get(t)).map(|j| &h.calls[*j]);
                        let what = match owner {
                            Some(o) if o.ghost.is_some() => "got-late-response-of-ended-call",
                            Some(_) => "got-other-calls-response",
                            None => "foreign-response",
                        };
                        v.violations.push((format!("{sigp}:{what}"), format!("{who} returned {} instead of its own response (that belongs to {})", show_tres(res), owner.map(|o| format!("the call with id {:?}", o.id)).unwrap_or_else(|| "nobody".into()))));
                    }
                    (None, TRes::Err(e)) => {
                        if let Some((expected, got)) = e.mismatch {
                            v.violations.push((format!("{sigp}:call-got-frame-of-other-id"), format!("{who} failed with ResponseIdMismatch(expected {expected}, got {got})")));
                        } else if let Some(ev) = &c.consumed_not_delivered {
                            v.violations.push((format!("{sigp}:response-consumed-but-not-delivered"), format!("{who}: the fake server answered it at once, but the call ended with `{}`: {ev}", e.text)));
                        } else if *late || h.write_err.is_some() || h.trouble.is_some() {
                            v.timeouts += *late as u64;
                            v.inconclusive.push(format!("long-history #{} ({k}): ordinary call with id {id} returned `{}` after the harness had shut the connection down / after harness trouble", h.index, e.text));
                        } else {
                            v.violations.push((format!("{sigp}:later-call-failed:{}", e.class), format!("{who} failed with `{}` ({}) although the fake server answered it at once and never closed the connection", e.text, e.class)));
                        }
                    }
                    _ => {}
                }
            }
        }
    }
    cnt(format!("long_history_ordinary_calls_returned_own_response_{k}"), returned_own);
    cnt(format!("long_history_ordinary_calls_with_id_from_256_{k}"), above_2_8);
    cnt(format!("long_history_ordinary_calls_with_id_from_65536_{k}"), above_2_16);
    cnt(format!("long_history_id_residues_mod_64_visited_{k}"), seen_mod64.len() as u64);
    cnt(format!("long_history_id_residues_mod_128_visited_{k}"), seen_mod128.len() as u64);
    cnt(format!("long_history_id_residues_mod_256_visited_{k}"), seen_mod256.len() as u64);
    if v.violations.is_empty() && v.inconclusive.is_empty() {
        if returned_own < 300 {
            v.inconclusive.push(format!("long-history #{} ({k}): only {returned_own} ordinary calls were observed after the calls that ended unusually", h.index));
        }
        if seen_mod256.len() < 256 {
            v.inconclusive.push(format!("long-history #{} ({k}): only {} of the 256 residue classes of the id counter were visited", h.index, seen_mod256.len()));
        }
        if !ghosts.iter().any(|c| c.ghost == Some(Ghost::TimeoutNever) && c.id.is_some() && matches!(&c.out, Some((TRes::Err(e), _)) if e.class == "Io.TimedOut")) {
            v.inconclusive.push(format!("long-history #{} ({k}): no call was observed timing out with its request at the server and its response never sent", h.index));
        }
    }
    v.counts = counts;
    v
}

pub(super) fn run_family(st: &mut Stage, args: &Args, index: &mut u64) {
    match st.only {
        None | Some(("long-history", _)) => {}
        Some(_) => return,
    }
    if st.stop.is_some() {
        return;
    }
    let t_family = Instant::now();
    let mut r = Rng::new(args.seed ^ 0x1057_0C04_A11);
    let rounds = args.budget(1, 4).max(1) * if args.stage == "long-history" { 3 } else { 1 };
    for _ in 0..rounds {
        if st.stop.is_some() {
            break;
        }
        let plans: Vec<(Kind, u64, u64)> = [Kind::B, Kind::A, Kind::W]
            .into_iter()
            .map(|k| {
                *index += 1;
                (k, *index, r.next_u64())
            })
            .collect();
        st.hb.reset();
        let (rt, seed) = (st.ctx.rt, st.seed);
        let hists: Vec<Result<LHist, String>> = std::thread::scope(|s| {
            let hs: Vec<_> = plans.iter().map(|(k, i, salt)| s.spawn(move || catching(|| run_history(rt, seed, *k, *i, *salt, true)))).collect();
            hs.into_iter().map(|h| h.join().unwrap_or_else(|_| Err("connection thread panicked".into()))).collect()
        });
        for kk in 0..3 {
            KLOG_REC[kk].store(false, Ordering::SeqCst);
            KLOG_MUTE[kk].store(false, Ordering::SeqCst);
            KLOG[kk].lock().unwrap_or_else(|e| e.into_inner()).clear();
        }
        let stall = st.hb.max_gap_ms();
        for ((kind, idx, salt), h) in plans.iter().zip(hists) {
            let h = match h {
                Ok(h) => h,
                Err(e) => {
                    st.rep.inconclusive(format!("long-history #{idx} ({}): harness panic: {e}", kind.name()));
                    continue;
                }
            };
            let v = judge_history(&h, stall);
            let rep = &mut st.rep;
            rep.eval();
            rep.count("scenarios_family_long_history", 1);
            for (key, n) in &v.counts {
                rep.count(key, *n);
            }
            rep.set(&format!("long_history_wall_ms_{}", kind.name()), json!(h.ms));
            rep.set(&format!("long_history_notify_burst_ms_{}", kind.name()), json!(h.notify_burst_ms));
            let ident = ("long-history", *kind, h.calls.iter().filter(|c| c.ghost.is_some()).map(|c| (c.ghost, c.id)).collect::<Vec<_>>(), h.calls.len());
            st.scripts.insert(hash_of(&ident));
            rep.distinct(&ident);
            if rep.samples.len() < rep.max_samples && *kind == Kind::B {
                rep.sample(json!({
                    "scenario": {"seed": st.seed, "stage": rep.stage, "family": "long-history", "index": idx, "client": kind.name(), "salt": salt},
                    "calls_that_ended_unusually": h.calls.iter().filter(|c| c.ghost.is_some()).map(|c| json!({"id": c.id, "how": c.ghost.map(|g| g.name()), "outcome": c.out.as_ref().map(|o| show_tres(&o.0)), "late_answer_after_calls": c.late_after_calls})).collect::<Vec<_>>(),
                    "ordinary_calls": h.calls.iter().filter(|c| c.ghost.is_none()).count(),
                    "largest_request_id": h.max_id, "notify_requests": h.notifies_burned, "wall_ms": h.ms,
                }));
            }
            for (sig, detail) in v.violations {
                let detail = format!("[long-history #{idx} {}] {detail}", kind.name());
                let replay = json!({"seed": st.seed, "stage": st.rep.stage, "family": "long-history", "index": idx, "client": kind.name(), "salt": salt});
                st.rep.violation(sig, detail, replay);
            }
            for i in v.inconclusive {
                st.rep.inconclusive(i);
            }
            st.timeouts += v.timeouts;
        }
        if st.rep.violations.len() >= 12 {
            st.stop = Some("twelve distinct violations recorded; stopping early".into());
        }
    }
    st.deadline += t_family.elapsed();
}
