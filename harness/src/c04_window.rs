// C04 family `reuse-window`: a caller-chosen id is registered again INSIDE the reader's match/deliver window.
//
// `AsyncClient::forward_message[_with_timeout]` registers the id the caller put into the message. The reader takes a
// call's pending entry out of the map when its response arrives (`async_client.reader.before_deliver` fires right
// after that) and only then hands the response to the waiting caller. Between those two steps the id is free again
// as far as the map is concerned, while the first caller has not yet resumed (its pending-entry guard is still
// alive). A second forward with the SAME id that registers in this window owns the map entry from then on; whatever
// the first caller does when it resumes must not touch it.
//
// Forced schedule (probe gate, `gate_arm` / `gate_release` in c04.rs):
//
// 1. bystander calls / forwards with other ids are put in flight (optionally some are answered),
// 2. the first op (a forward with a caller-chosen id X, or a plain call whose counter id X is read off the wire)
//    reaches the fake server,
// 3. the gate is armed at (`reader.before_deliver`, X), the fake server answers X with the first op's token: the
//    reader parks with the entry already removed,
// 4. the second forward (id X, own token) is spawned from another task; the harness waits until its frame is at the
//    fake server (registered and written), the first op must still be waiting,
// 5. the gate is released, the first op returns,
// 6. the fake server answers X again, with the second forward's token, then the bystanders, then a sentinel.
//
// Variants: the answer of step 6 already sent before step 5 (`InWindowEarlyAnswer`: the reader finds it right behind
// the first response) and the control `Sequential` (same gate, but the second forward is spawned only after the first
// op has returned: plain reuse of a completed id).
//
// Oracle (offline, `judge_window`): the first op returns its own token, the second forward is accepted, written
// exactly once and returns ITS OWN token, every bystander returns its own token. A call that never returns is a
// violation only on logical evidence (the reader went past a sentinel frame having consumed every frame with that id
// without reaching the deliver point for it). A case in which the reader could not be parked is counted, judged
// without the claims that depend on the forced order, and reported.

use super::*;

#[derive(Clone, Copy, PartialEq, Eq, Hash, Debug)]
pub(super) enum WVar {
    InWindow,
    InWindowEarlyAnswer,
    Sequential,
}

#[derive(Clone, Copy, PartialEq, Eq, Hash, Debug)]
pub(super) enum First {
    Fwd,
    FwdT,
    Call(Api),
}

#[derive(Clone, Copy, PartialEq, Eq, Hash, Debug)]
pub(super) enum XId {
    Fresh,
    Zero,
    /// an id whose call completed earlier on this connection
    Past,
}

#[derive(Clone, Copy, PartialEq, Eq, Hash, Debug)]
pub(super) enum By {
    Call(Api),
    Fwd(bool),
}

#[derive(Clone, Debug)]
pub(super) struct WScn {
    index: u64,
    var: WVar,
    first: First,
    second_with_timeout: bool,
    xid: XId,
    by: Vec<By>,
    /// answer a seeded subset of the bystanders before the gate is armed
    by_early: bool,
    extras: bool,
    wmode: u8,
    salt: u64,
    delays: bool,
}

impl WScn {
    fn identity(&self) -> (WVar, First, bool, XId, &[By], bool, bool, u8) {
        (self.var, self.first, self.second_with_timeout, self.xid, &self.by, self.by_early, self.extras, self.wmode)
    }
    fn to_json(&self, seed: u64) -> Value {
        json!({
            "seed": seed, "family": "reuse-window", "index": self.index, "client": "async", "variant": format!("{:?}", self.var),
            "first": format!("{:?}", self.first), "second_with_timeout": self.second_with_timeout, "id": format!("{:?}", self.xid),
            "bystanders": self.by.iter().map(|b| format!("{b:?}")).collect::<Vec<_>>(), "bystanders_answered_early": self.by_early,
            "extras": self.extras, "wmode": self.wmode, "salt": self.salt, "delays": self.delays,
        })
    }
}

pub(super) fn random_wscn(index: u64, rng: &mut Rng) -> WScn {
    let var = match rng.below(8) {
        0 | 1 => WVar::Sequential,
        2 => WVar::InWindowEarlyAnswer,
        _ => WVar::InWindow,
    };
    let first = match rng.below(8) {
        0 | 1 | 2 => First::Fwd,
        3 | 4 | 5 => First::FwdT,
        _ => First::Call(*rng.pick(&[Api::Json, Api::JsonT, Api::Msg])),
    };
    let xid = match rng.below(6) {
        0 => XId::Zero,
        1 | 2 => XId::Past,
        _ => XId::Fresh,
    };
    let n_by = match rng.below(4) {
        0 => 0,
        1 | 2 => 1 + rng.usize_below(3),
        _ => 2 + rng.usize_below(7),
    };
    let by: Vec<By> = (0..n_by).map(|_| if rng.chance(1, 3) { By::Fwd(rng.coin()) } else { By::Call(*rng.pick(&[Api::Json, Api::JsonT, Api::Msg])) }).collect();
    WScn { index, var, first, second_with_timeout: rng.coin(), xid, by, by_early: rng.chance(1, 3), extras: rng.chance(1, 3), wmode: rng.below(3) as u8, salt: rng.next_u64(), delays: rng.chance(1, 2) }
}

#[derive(Default, Debug, Clone)]
pub(super) struct WObs {
    /// the reader parked at (before_deliver, X)
    forced: bool,
    x: Option<u64>,
    f1: Option<usize>,
    f2: Option<usize>,
    by: Vec<usize>,
    /// bystanders still in flight when the gate was armed
    by_open: usize,
    /// the second forward's frame was at the fake server while the reader was still parked
    second_on_wire_while_parked: bool,
    /// the second forward had been written or had returned (refused) while the reader was still parked
    second_settled_while_parked: bool,
    first_waiting_while_parked: bool,
    pending_at_park: Option<usize>,
    pending_with_second: Option<usize>,
    /// the first op had returned before the second forward was spawned (Sequential)
    first_returned_before_second: bool,
}

fn gate_is_parked() -> bool {
    let g = gate();
    g.parked && g.armed.is_some()
}

pub(super) fn run_window(conn: &mut Conn, ctx: &mut Ctx, ws: &WScn) -> (FHist, WObs) {
    let rng = Rng::new(ctx.seed ^ ws.salt.rotate_left(29) ^ 0x001D_0C04);
    LOG.lock().unwrap_or_else(|e| e.into_inner()).clear();
    SALT.store(ws.salt, Ordering::Relaxed);
    DELAYS.store(ws.delays, Ordering::Relaxed);
    ctx.sentinel_ctr += 1;
    let sentinel = SENT_BASE + ctx.sentinel_ctr;
    if let Srv::Tcp { s, .. } = &conn.srv {
        s.set_read_timeout(Some(Duration::from_millis(2))).ok();
    }
    let (tx, rx) = mpsc::channel();
    let h = FHist { ops: vec![], wire: vec![], sent: vec![], outs: vec![], events: vec![], trouble: None, sentinel_seen: false, pending_after: None };
    let mut run = FwdRun { conn, ctx, h, tx, rx, rng, wmode: ws.wmode };
    let mut obs = WObs::default();
    let r = window_phases(&mut run, ws, sentinel, &mut obs);
    // whatever happened: nobody stays parked
    gate_release();
    if let Err(e) = r {
        run.h.trouble = Some(e);
    }
    if run.h.trouble.is_some() {
        run.conn.srv.close(run.ctx.rt);
        let until = Instant::now() + Duration::from_secs(3);
        while run.h.outs.iter().any(|o| o.is_none()) && Instant::now() < until {
            run.drain();
            std::thread::sleep(Duration::from_millis(2));
        }
    } else {
        let until = Instant::now() + Duration::from_secs(10);
        while SENTINEL_SEEN.load(Ordering::SeqCst) != sentinel && Instant::now() < until {
            std::thread::sleep(Duration::from_micros(50));
        }
        run.h.sentinel_seen = SENTINEL_SEEN.load(Ordering::SeqCst) == sentinel;
        run.drain();
        if run.h.sentinel_seen && run.h.outs.iter().all(|o| o.is_some()) {
            run.h.pending_after = Some(run.cli().verif_pending_len());
            if let Some(x) = obs.x {
                if run.conn.past_ids.len() < 64 {
                    run.conn.past_ids.push(x);
                } else {
                    let k = run.rng.usize_below(64);
                    run.conn.past_ids[k] = x;
                }
            }
        }
    }
    DELAYS.store(false, Ordering::Relaxed);
    run.h.events = std::mem::take(&mut *LOG.lock().unwrap_or_else(|e| e.into_inner()));
    run.conn.scenarios += 1;
    (run.h, obs)
}

/// Err: harness trouble or a window ran out (the case is cut short and judged on what was observed).
fn window_phases(run: &mut FwdRun, ws: &WScn, sentinel: u64, obs: &mut WObs) -> Result<(), String> {
    let short = |what: &str| format!("{what} not complete inside {} s", FWD_WINDOW.as_secs());
    fn fresh(run: &mut FwdRun) -> u64 {
        run.ctx.fresh_ctr += 1;
        (1u64 << 44) + run.ctx.fresh_ctr
    }
    // 1. bystanders
    let mut by_ops: Vec<usize> = vec![];
    for (i, b) in ws.by.iter().enumerate() {
        match *b {
            By::Call(api) => {
                let o = run.add_op(OpClass::Base, 1, format!("bystander call {i} ({api:?})"), None, None, ws.index);
                run.spawn_call(o, api);
                by_ops.push(o);
            }
            By::Fwd(t) => {
                let id = fresh(run);
                let o = run.add_op(OpClass::Free, 1, format!("bystander forward{} {i}", if t { "_with_timeout" } else { "" }), Some(id), None, ws.index);
                run.spawn_forward(o, FOp { fid: FId::Fresh, with_timeout: t, notify: false });
                by_ops.push(o);
            }
        }
    }
    obs.by = by_ops.clone();
    if !run.pump(&by_ops, &[], &[], FWD_WINDOW)? {
        return Err(short("bystander requests"));
    }
    let mut by_open = by_ops.clone();
    if ws.by_early && !by_ops.is_empty() {
        let some: Vec<usize> = by_ops.iter().copied().filter(|_| run.rng.coin()).collect();
        if !some.is_empty() {
            run.answer(&some, ws.extras)?;
            if !run.pump(&[], &some, &[], FWD_WINDOW)? {
                return Err(short("results of the bystanders answered early"));
            }
            by_open.retain(|o| !some.contains(o));
        }
    }
    // 2. the first op
    let f1 = match ws.first {
        First::Call(api) => {
            let o = run.add_op(OpClass::Base, 2, format!("first op: call ({api:?})"), None, None, ws.index);
            run.spawn_call(o, api);
            o
        }
        First::Fwd | First::FwdT => {
            let id = match ws.xid {
                XId::Zero => 0,
                XId::Past if !run.conn.past_ids.is_empty() => {
                    let k = run.rng.usize_below(run.conn.past_ids.len());
                    run.conn.past_ids[k]
                }
                _ => fresh(run),
            };
            let t = ws.first == First::FwdT;
            let o = run.add_op(OpClass::Free, 2, format!("first op: forward{}", if t { "_with_timeout" } else { "" }), Some(id), None, ws.index);
            run.spawn_forward(o, FOp { fid: FId::Fresh, with_timeout: t, notify: false });
            o
        }
    };
    obs.f1 = Some(f1);
    if !run.pump(&[f1], &[], &[], FWD_WINDOW)? {
        return Err(short("request of the first op"));
    }
    let x = run.h.ops[f1].id.ok_or_else(|| "harness: id of the first op is not known".to_string())?;
    obs.x = Some(x);
    // 3. park the reader between "entry removed" and "response handed over"
    gate_arm(P_BEFORE_DELIVER, x);
    run.answer(&[f1], false)?;
    obs.forced = gate_wait_parked(GATE_MAX);
    if obs.forced {
        obs.pending_at_park = Some(run.cli().verif_pending_len());
        obs.by_open = by_open.len();
    } else {
        gate_release();
    }
    // 4. the second forward with the same id
    fn second(run: &mut FwdRun, ws: &WScn, x: u64, target: usize) -> usize {
        let t = ws.second_with_timeout;
        let o = run.add_op(OpClass::Free, 3, format!("second op: forward{} reusing the first op's id", if t { "_with_timeout" } else { "" }), Some(x), Some(target), ws.index);
        run.spawn_forward(o, FOp { fid: FId::Fresh, with_timeout: t, notify: false });
        o
    }
    // until its frame is at the fake server, or it has returned (refused)
    fn wait_second(run: &mut FwdRun, o: usize) -> Result<bool, String> {
        let until = Instant::now() + FWD_WINDOW;
        loop {
            run.drain();
            if run.on_wire(o) || run.h.outs[o].is_some() {
                return Ok(true);
            }
            if Instant::now() >= until {
                return Ok(false);
            }
            run.read_one()?;
        }
    }
    let mut f2: Option<usize> = None;
    if ws.var != WVar::Sequential {
        let o = second(run, ws, x, f1);
        f2 = Some(o);
        obs.f2 = f2;
        if !wait_second(run, o)? {
            return Err(short("the second forward (neither written nor returned)"));
        }
        run.drain();
        if obs.forced && gate_is_parked() {
            obs.second_settled_while_parked = true;
            obs.second_on_wire_while_parked = run.on_wire(o);
            obs.first_waiting_while_parked = run.h.outs[f1].is_none();
            obs.pending_with_second = Some(run.cli().verif_pending_len());
        }
        if ws.var == WVar::InWindowEarlyAnswer && run.on_wire(o) {
            run.answer(&[o], false)?;
        }
    }
    // 5. let the reader hand the first response over
    gate_release();
    if !run.pump(&[], &[f1], &[], CALL_WINDOW)? {
        return Err(format!("the first op did not return inside {} s after the reader was released", CALL_WINDOW.as_secs()));
    }
    // 6. sequential control: the id is reused only now
    if ws.var == WVar::Sequential {
        obs.first_returned_before_second = true;
        let o = second(run, ws, x, f1);
        f2 = Some(o);
        obs.f2 = f2;
        if !wait_second(run, o)? {
            return Err(short("the second forward (neither written nor returned)"));
        }
    }
    let o2 = f2.unwrap();
    if ws.var != WVar::InWindowEarlyAnswer && run.on_wire(o2) {
        run.answer(&[o2], false)?;
    }
    if !by_open.is_empty() {
        run.answer(&by_open, ws.extras)?;
    }
    let mut out = vec![mk_frame(sentinel, false, b"/c04/sentinel", &json!({"id": sentinel, "tok": "sentinel", "k": "unk"}))];
    let mut rng = run.rng.fork(9);
    run.conn.srv.send(run.ctx.rt, &mut out, 0, &mut rng)?;
    // results: inside the generous window, or until waiting longer cannot change anything (decided on events:
    // the reader is past the sentinel and has consumed every frame with the id of each op that has not returned
    // without reaching the deliver point often enough)
    let until = Instant::now() + CALL_WINDOW;
    loop {
        run.drain();
        if run.h.outs.iter().all(|o| o.is_some()) || Instant::now() >= until {
            break;
        }
        if SENTINEL_SEEN.load(Ordering::SeqCst) == sentinel {
            let ev = LOG.lock().unwrap_or_else(|e| e.into_inner()).clone();
            let hopeless = (0..run.h.ops.len()).filter(|o| run.h.outs[*o].is_none()).all(|o| match run.h.ops[o].id {
                Some(id) => {
                    let (sent_with_id, resp_with_id, received, delivered) = id_evidence(&run.h.sent, &ev, id);
                    run.on_wire(o) && received >= sent_with_id && delivered < resp_with_id
                }
                None => false,
            });
            if hopeless {
                break;
            }
        }
        if let Ok((op, r)) = run.rx.recv_timeout(Duration::from_millis(2)) {
            if op < run.h.outs.len() && run.h.outs[op].is_none() {
                run.h.outs[op] = Some(r);
            }
        }
    }
    Ok(())
}

/// (frames the server sent with this id, of which responses, frames with this id the reader announced, deliveries)
fn id_evidence(sent: &[(u64, String, &'static str)], ev: &[(u8, u64)], id: u64) -> (usize, usize, usize, usize) {
    (
        sent.iter().filter(|s| s.0 == id).count(),
        sent.iter().filter(|s| s.0 == id && s.2 == "resp").count(),
        ev.iter().filter(|e| e.0 == P_RECEIVED && e.1 == id).count(),
        ev.iter().filter(|e| e.0 == P_BEFORE_DELIVER && e.1 == id).count(),
    )
}

pub(super) fn judge_window(ws: &WScn, h: &FHist, obs: &WObs, stall_ms: u64) -> FVerdict {
    let mut v = FVerdict::default();
    let healthy = h.trouble.is_none() && h.sentinel_seen;
    let tok_owner: HashMap<&str, usize> = h.ops.iter().enumerate().map(|(i, o)| (o.tok.as_str(), i)).collect();
    let mut viol: Vec<(String, String)> = vec![];
    let mut inc: Vec<String> = vec![];
    let mut counts: Vec<(String, u64)> = vec![];
    let mut cnt = |k: &str| counts.push((k.to_string(), 1));
    let mut anomalies = false;
    // which claim the case supports: the forced window, plain sequential reuse, or neither (order unknown)
    let windowed = ws.var != WVar::Sequential && obs.forced && obs.second_settled_while_parked;
    let sequential = ws.var == WVar::Sequential && obs.first_returned_before_second;
    let p = if windowed {
        "C04:async:forward:id-reuse-in-deliver-window"
    } else if sequential {
        "C04:async:forward:id-reuse-sequential"
    } else {
        "C04:async:forward:id-reuse-unforced"
    };
    let vname = match ws.var {
        WVar::InWindow => "in_window",
        WVar::InWindowEarlyAnswer => "in_window_early_answer",
        WVar::Sequential => "sequential_control",
    };
    cnt(&format!("reuse_window_cases_{vname}"));
    if obs.forced {
        cnt("reuse_window_reader_parked_before_deliver");
    } else if obs.x.is_some() {
        cnt("reuse_window_reader_could_not_be_parked");
    }
    if windowed {
        cnt("reuse_window_schedules_forced");
        cnt(&format!("reuse_window_schedules_forced_{vname}"));
        if obs.second_on_wire_while_parked {
            cnt("reuse_window_second_written_while_reader_parked");
        }
        if obs.first_waiting_while_parked {
            cnt("reuse_window_first_op_still_waiting_when_second_was_written");
        } else {
            inc.push("harness confusion: the first op had a result while the reader was parked before delivering its response".into());
        }
        if obs.pending_at_park == Some(obs.by_open) {
            cnt("reuse_window_pending_len_at_park_equals_bystanders_in_flight");
        }
        if obs.pending_with_second == Some(obs.by_open + 1) {
            cnt("reuse_window_pending_len_with_second_registered_as_expected");
        }
    } else if ws.var != WVar::Sequential && obs.x.is_some() {
        cnt("reuse_window_schedules_not_forced");
    }
    if sequential {
        cnt("reuse_window_sequential_controls_run");
    }
    if let Some(t) = &h.trouble {
        inc.push(format!("reuse-window case cut short: {t} (stall {stall_ms} ms)"));
        anomalies = true;
    }
    let x_note = format!("id {:?}; reader parked before delivering the first response: {}; second forward's frame at the fake server while the reader was parked: {}; first op still waiting then: {}; pending entries at park / with the second registered: {:?} / {:?} ({} bystander(s) in flight)", obs.x, obs.forced, obs.second_on_wire_while_parked, obs.first_waiting_while_parked, obs.pending_at_park, obs.pending_with_second, obs.by_open);

    for (i, o) in h.ops.iter().enumerate() {
        let role = if Some(i) == obs.f1 {
            "first-call"
        } else if Some(i) == obs.f2 {
            "second-call"
        } else {
            "bystander"
        };
        let frames = h.wire.iter().filter(|w| w.op == Some(i)).count();
        let answered = o.id.map(|id| h.sent.iter().any(|s| s.0 == id && s.1 == o.tok && s.2 == "resp")).unwrap_or(false);
        let who = format!("{} (id {:?}, token {})", o.desc, o.id, o.tok);
        let returned_tok = |body: &Value| body.get("tok").and_then(|t| t.as_str()).map(|t| t.to_string());
        let owner_of = |body: &Value| -> String {
            match returned_tok(body).as_deref().and_then(|t| tok_owner.get(t)) {
                Some(j) => format!("{} (id {:?})", h.ops[*j].desc, h.ops[*j].id),
                None => format!("nobody in this case (body {body})"),
            }
        };
        match &h.outs[i] {
            Some(Res::Body { hdr, body }) => {
                let mut good = returned_tok(body).as_deref() == Some(o.tok.as_str()) && body.get("id").and_then(|x| x.as_u64()) == o.id && o.id.is_some();
                if let Some((hid, hn, hec)) = hdr {
                    good &= Some(*hid) == o.id && *hn == 0 && *hec == 0;
                }
                if good && frames == 1 {
                    cnt(&format!("reuse_window_{}_returned_own_token", role.replace('-', "_")));
                    if role == "second-call" && windowed {
                        cnt("reuse_window_second_call_registered_in_window_returned_own_token");
                    }
                } else if good {
                    anomalies = true;
                    viol.push((format!("{p}:{role}:not-written-exactly-once"), format!("{who} returned its own response but {frames} frame(s) of it reached the fake server; {x_note}")));
                } else {
                    anomalies = true;
                    let first_tok = obs.f1.map(|f| h.ops[f].tok.as_str());
                    let what = if role == "second-call" && returned_tok(body).as_deref() == first_tok { "got-first-calls-response" } else { "got-foreign-response" };
                    viol.push((format!("{p}:{role}:{what}"), format!("{who} returned header {hdr:?} body {body}, which belongs to {}; its own request reached the server {frames} time(s); {x_note}", owner_of(body))));
                }
            }
            Some(Res::Err(e)) => {
                anomalies = true;
                if let Some((expected, got)) = e.mismatch {
                    viol.push((format!("{p}:{role}:got-frame-of-other-id"), format!("{who} failed with ResponseIdMismatch(expected {expected}, got {got}); {x_note}")));
                } else if frames == 0 && role == "second-call" && !windowed && !sequential {
                    // order unknown: the id may still have been registered for the first op
                    cnt("reuse_window_second_refused_in_unforced_case");
                } else if frames == 0 && h.trouble.is_none() && (role == "second-call" || (role == "bystander" && o.class == OpClass::Free)) {
                    viol.push((
                        format!("{p}:{role}:refused:{}", e.class),
                        format!("{who} was refused with `{}` and wrote nothing although no call with that id was registered (the reader had taken the first op's entry out of the map); {x_note}", e.text),
                    ));
                } else if frames > 0 && answered && healthy {
                    viol.push((
                        format!("{p}:{role}:failed:{}", e.class),
                        format!("{who} failed with `{}` although its request reached the fake server, was answered with its own id and token, and the connection stayed healthy (sentinel seen); {x_note}", e.text),
                    ));
                } else {
                    inc.push(format!("{who} failed with `{}` (frames on the wire: {frames}, answered: {answered}, healthy: {healthy})", e.text));
                }
            }
            Some(Res::NotifyOk) => {
                anomalies = true;
                viol.push((format!("{p}:{role}:returned-no-response"), format!("{who} returned Ok(None) although the message was not a notify")));
            }
            None => {
                anomalies = true;
                let id = o.id.unwrap_or(u64::MAX);
                let (sent_with_id, resp_with_id, received, delivered) = id_evidence(&h.sent, &h.events, id);
                if answered && frames > 0 && h.sentinel_seen && received >= sent_with_id && delivered < resp_with_id {
                    viol.push((
                        format!("{p}:{role}:response-consumed-but-not-delivered"),
                        format!("{who}: the reader consumed all {sent_with_id} frame(s) sent with its id ({resp_with_id} response(s)) but reached the deliver point only {delivered} time(s) and went on past the sentinel: the call cannot receive its response; {x_note}"),
                    ));
                } else {
                    inc.push(format!("{who} produced no result inside the harness bound (answered: {answered}, frames on the wire: {frames}, reader received {received}/{sent_with_id}, delivered {delivered}, stall {stall_ms} ms); {x_note}"));
                }
            }
        }
    }
    if let Some(pend) = h.pending_after {
        if pend != 0 {
            // evidence only: C04 is about correlation, not about leaks
            cnt("reuse_window_pending_entries_left_after_case");
        }
    }
    if !h.sentinel_seen && h.trouble.is_none() && viol.is_empty() {
        inc.push(format!("reuse-window case: sentinel frame not seen by the client's reader within 10 s (stall {stall_ms} ms)"));
        anomalies = true;
    }
    v.violations = viol;
    v.inconclusive = inc;
    v.counts = counts;
    v.anomalies = anomalies;
    v
}

/// Run and judge one case on the family's own AsyncClient connection. Returns false when the family must stop.
fn exec_window(st: &mut Stage, ws: &WScn) -> bool {
    if st.stop.is_some() {
        return false;
    }
    if Instant::now() >= st.deadline {
        st.stop = Some("stage time budget used up".into());
        return false;
    }
    if st.win_conn.as_ref().map(|c| c.scenarios >= 200).unwrap_or(false) {
        drop_conn(st.win_conn.take().unwrap(), st.ctx.rt);
        st.rep.count("connections_closed_after_reuse", 1);
    }
    if st.win_conn.is_none() {
        match connect_retry(Kind::A, st.ctx.rt) {
            Ok(c) => {
                st.rep.count("connections_async_reuse_window", 1);
                st.win_conn = Some(c);
            }
            Err(e) => {
                st.connect_failures += 1;
                st.rep.inconclusive(format!("could not set up an async connection for the reuse-window cases: {e}"));
                if st.connect_failures >= 3 {
                    st.stop = Some("repeated connection set-up failures".into());
                }
                return st.stop.is_none();
            }
        }
    }
    let mut conn = st.win_conn.take().unwrap();
    let t0 = Instant::now();
    st.hb.reset();
    let (h, obs) = run_window(&mut conn, &mut st.ctx, ws);
    let stall = st.hb.max_gap_ms();
    st.max_scn_ms = st.max_scn_ms.max(t0.elapsed().as_millis() as u64);
    let mut v = judge_window(ws, &h, &obs, stall);
    if stall > 1000 && !v.violations.is_empty() && v.violations.iter().all(|(s, _)| s.contains(":response-consumed-but-not-delivered")) {
        // never-returned verdicts are the only ones that lean on a window at all
        v.inconclusive.push(format!("reuse-window case #{}: machine stall of {stall} ms during the case", ws.index));
    }

    let rep = &mut st.rep;
    rep.eval();
    rep.count("scenarios_family_reuse_window", 1);
    rep.count("reuse_window_request_frames_seen_by_fake_server", h.wire.len() as u64);
    rep.count("reuse_window_frames_sent_by_fake_server", h.sent.len() as u64 + 1);
    rep.count("probe_events_recorded", h.events.len() as u64);
    for (k, n) in &v.counts {
        rep.count(k, *n);
    }
    let op_of_id: HashMap<u64, usize> = h.ops.iter().enumerate().rev().filter_map(|(i, o)| Some((o.id?, i))).collect();
    let rel: Vec<(u8, u64)> = h.events.iter().map(|e| (e.0, op_of_id.get(&e.1).map(|o| *o as u64).unwrap_or(if e.1 >= SENT_BASE { 10_000 } else { 20_000 }))).collect();
    let full = hash_of(&rel);
    st.il_full.insert(full);
    st.il_by_kind.entry(Kind::A).or_default().insert(full);
    st.scripts.insert(hash_of(&("reuse-window", ws.identity())));
    rep.distinct(&("reuse-window-script", ws.identity()));
    rep.distinct(&("reuse-window-interleaving", full));
    if rep.samples.len() < rep.max_samples && ws.index % 41 == 7 {
        rep.sample(json!({
            "scenario": ws.to_json(st.seed),
            "observed": {"reader_parked": obs.forced, "second_written_while_parked": obs.second_on_wire_while_parked, "first_waiting_while_parked": obs.first_waiting_while_parked, "pending_at_park": obs.pending_at_park, "pending_with_second": obs.pending_with_second, "bystanders_in_flight": obs.by_open, "id": obs.x},
            "ops": h.ops.iter().enumerate().map(|(i, o)| json!({"op": i, "what": o.desc, "id": o.id, "frames_on_wire": h.wire.iter().filter(|w| w.op == Some(i)).count(), "outcome": show_res(&h.outs[i])})).collect::<Vec<_>>(),
        }));
    }
    for (sig, detail) in v.violations {
        let detail = format!("[reuse-window #{} {:?}] {detail}", ws.index, ws.var);
        st.rep.violation(sig, detail, ws.to_json(st.seed));
    }
    for i in v.inconclusive {
        st.rep.inconclusive(i);
    }
    if v.anomalies || matches!(conn.srv, Srv::Closed) {
        st.rep.count("connections_abandoned_after_anomaly", 1);
        drop_conn(conn, st.ctx.rt);
        st.win_anomalies += 1;
    } else {
        st.win_conn = Some(conn);
    }
    if st.rep.violations.len() >= 12 {
        st.stop = Some("twelve distinct violations recorded; stopping early".into());
    }
    // enough witnesses; every further anomalous case may cost a full window
    st.stop.is_none() && st.win_anomalies < 6
}

/// The family. A thread parked inside a probe blocks one tokio worker; if that worker was driving the I/O and timer
/// driver, nobody takes the driver over until a worker is woken, so a kicker injects a no-op task every millisecond.
pub(super) fn run_family(st: &mut Stage, args: &Args, index: &mut u64) {
    let stop = Arc::new(AtomicBool::new(false));
    {
        let (stop, h) = (stop.clone(), st.ctx.rt.handle().clone());
        let _ = std::thread::Builder::new().name("c04-kick".into()).spawn(move || {
            while !stop.load(Ordering::Relaxed) {
                drop(h.spawn(async {}));
                std::thread::sleep(Duration::from_millis(1));
            }
        });
    }
    let mut r = Rng::new(args.seed ^ 0x00D0_3117_E2);
    let n = args.budget(160, 4000);
    let (parks0, gate_timeouts0) = gate_stats();
    let mut ran = 0u64;
    for _ in 0..n {
        *index += 1;
        let ws = random_wscn(*index, &mut r);
        match st.only {
            None => {
                ran += 1;
                if !exec_window(st, &ws) {
                    break;
                }
            }
            Some(("reuse-window", i)) if i == ws.index => {
                for rep_i in 0..200u64 {
                    let mut again = ws.clone();
                    if rep_i > 0 {
                        again.salt = mix(ws.salt ^ rep_i);
                        again.delays = true;
                    }
                    ran += 1;
                    if !exec_window(st, &again) {
                        break;
                    }
                }
            }
            Some(_) => {}
        }
    }
    stop.store(true, Ordering::Relaxed);
    if let Some(c) = st.win_conn.take() {
        drop_conn(c, st.ctx.rt);
    }
    let (parks, gate_timeouts) = gate_stats();
    st.rep.set("reuse_window_gate_parks", json!(parks - parks0));
    st.rep.set("reuse_window_gate_timeouts", json!(gate_timeouts - gate_timeouts0));
    if gate_timeouts > gate_timeouts0 {
        st.rep.inconclusive(format!("reuse-window: a parked reader was not released within {} s ({} time(s)): harness trouble", GATE_MAX.as_secs(), gate_timeouts - gate_timeouts0));
    }
    if ran > 0 && st.only.is_none() && st.rep.get_count("reuse_window_schedules_forced") == 0 && st.rep.violations.is_empty() {
        st.rep.inconclusive("reuse-window: the schedule (second registration of an id while the reader is parked between match and deliver) could not be forced in any case of this run");
    }
}
