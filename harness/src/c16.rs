//! C16 — not built yet.
use crate::common::*;

pub fn run(args: &Args) -> Report {
    let mut rep = Report::new(args, "c16-stub", "stub");
    rep.inconclusive("check not implemented");
    rep
}
