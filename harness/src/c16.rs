//! C16 — off-reader (`_blocking`) WebSocket handlers are capped per connection, never block the
//! reader and never kill the connection.
//!
//! Workload: a real `WebSocketServer` (cap 1..16, the default, or unlimited) whose blocking routes
//! count themselves in a per-connection gauge through an RAII guard (a panic decrements too) and
//! park on per-request gates owned by the harness.  A raw `tokio_tungstenite` client that speaks
//! REPE through `oracle.rs` pipelines up to 4×cap requests / notifies interleaved with inline
//! `/ping` calls, releases the parked handlers in a chosen order (all permutations × all outcome
//! assignments for cap ≤ 3), mixes in handlers that return / error / panic, refills freed slots and
//! finally demands the whole capacity back.
//!
//! Oracle (events, never latencies):
//!  * gauge value seen by every handler right after its increment ≤ cap;
//!  * the first `cap` off-reader messages of a fresh connection are admitted, every later one is
//!    answered with ec 8 and its own id (a notify: no handler, no frame) — and those replies, as
//!    well as the replies to the interleaved inline pings, are RECEIVED BEFORE the harness releases
//!    any gate;
//!  * a parked call is answered only after its gate was released, with its id and the outcome it was
//!    scripted to have (return → ec 0 + token, error → application code, panic → ec 9); the other
//!    parked calls stay parked and are answered correctly later; the connection never closes;
//!  * slot recovery as bounded progress: after all handlers exited, `cap` new parked requests are
//!    all admitted (Started event while parked) within a bounded number of retries on ec 8, the
//!    gauge then reads exactly `cap`, and one more request is again rejected.
//!
//! Two further scenario families run first (`--stage notify-fill` / `--stage flood` run them alone):
//!  * notify-fill — caps 1..4 × every request/notify pattern of the admitted set with ≥ 1 notify (plus named
//!    shapes such as cap 2 = one request + three notifies, cap 3 = four notifies): admitted NOTIFY handlers
//!    park on gates and count in the gauge like requests, over-cap requests / notifies that arrive while
//!    notify handlers hold the slots are rejected with ec 8 / dropped before any gate opens, and every
//!    notify exit gives its slot back at once (a new parked request is admitted within bounded retries,
//!    one more is rejected again);
//!  * flood — `with_outbound_capacity(c)`, c ∈ {1, 2, 4, 8, default} × caps 1..4: once the cap is saturated
//!    the client writes K ≫ c over-cap requests (+ inline pings, + over-cap notifies) in ONE flush while it
//!    does NOT read its socket; in the `push-N` variant the harness first pushes N-KiB notifies through the
//!    connection's `PeerHandle` until the bounded outbound queue reports Full and stays Full (writer stuck
//!    on the unread socket), so the tail meets a saturated cap AND a full outbound queue.  Reading starts
//!    only after the on_error saturation count covered the whole tail or stopped moving.  Oracle: every
//!    over-cap request is still answered exactly once with ec 8 and its id, every ping with its pong, in
//!    a heartbeat-gated window and before any gate is opened ("C16:over-cap-request-never-answered:
//!    outbound-queue-full" / ":unread-pipelined-burst"); then the normal release / recovery phases run.
//! A quarter of the random cases also run with a tiny outbound capacity (client reading normally).
//!
//! A third family runs before everything else (`--stage hammer` runs it alone, `c16_hammer.rs`):
//!  * hammer — caps 1, 2, 4, 8 × server runtime flavour (multi-thread / current-thread), eight groups at once,
//!    one connection each: tens of thousands of SHORT off-reader requests (no gate: return / error / panic at
//!    once) kept in flight by several concurrent callers or deep pipelining, so that handler exits overlap the
//!    reader's admissions; every request gets exactly one reply (its own result or ec 8; the saturation hook
//!    records whether `cap` handlers were running at the rejection); at every idle point (all replies in,
//!    gauge 0) a probe parks exactly `cap` handlers — all admitted, one more rejected, all answer after release.
//!    "C16:capacity-lost-after-hammer:<cap>:<admitted>" / "C16:capacity-exceeded-after-hammer:<cap>:<cap+1>".
//!
//! Anything that depends on the machine making progress (15 s windows) is inconclusive when the
//! heartbeat saw a stall.

use crate::common::*;
use crate::oracle::{self, SpecHeader};
use futures_util::{SinkExt, StreamExt};
use repe::server::{HandlerErased, Middleware, Next, Router};
use repe::{CallContext, ConnectionError, ErrorCode, Execution, Message, NotifyBody, PeerHandle, PeerSendError, RepeError, WebSocketServer};
use serde_json::{Value, json};
use std::collections::{HashMap, HashSet};
use std::sync::atomic::{AtomicU64, Ordering};
use std::sync::{Arc, Mutex};
use std::time::{Duration, Instant};
use tokio::sync::mpsc::{UnboundedReceiver, UnboundedSender, unbounded_channel};
use tokio_tungstenite::tungstenite::Message as WsMsg;

#[path = "c16_hammer.rs"]
mod hammer;
#[path = "c16_names.rs"]
mod names;

type Ws = tokio_tungstenite::WebSocketStream<tokio::net::TcpStream>;

const WINDOW: Duration = Duration::from_secs(12);
const ROUTES: [&str; 5] = ["json_blocking", "json_ctx_blocking", "typed_blocking", "typed_ctx_blocking", "erased_offreader"];
static CONN_IDS: AtomicU64 = AtomicU64::new(1);
#[derive(Debug)]
struct ScriptedPanicPayload {
    #[allow(dead_code)]
    token: u64,
}
static PLAIN_PANICS: AtomicU64 = AtomicU64::new(0);

// ------------------------------------------------------------------ scripts

#[derive(Clone, Copy, Debug, Hash, PartialEq, Eq)]
enum Out {
    Ret,
    Err,
    Panic,
}
impl Out {
    fn name(self) -> &'static str {
        match self {
            Out::Ret => "ret",
            Out::Err => "err",
            Out::Panic => "panic",
        }
    }
    fn from(s: &str) -> Out {
        match s {
            "err" => Out::Err,
            "panic" => Out::Panic,
            _ => Out::Ret,
        }
    }
    fn pick(r: &mut Rng) -> Out {
        [Out::Ret, Out::Err, Out::Panic][r.usize_below(3)]
    }
}

#[derive(Clone, Copy, Debug, Hash, PartialEq, Eq)]
enum Item {
    Park { out: Out, notify: bool },
    Ping,
}

/// How the part of the burst that follows the admitted prefix is delivered.
#[derive(Clone, Copy, Debug, Hash, PartialEq, Eq)]
enum Fill {
    /// the whole burst in one flush while the client reads normally
    None,
    /// admitted prefix first (wait for the handlers to park), then the whole tail in ONE flush while the
    /// client does NOT read its socket; reading starts only after the server had time to process the tail
    Unread,
    /// like `Unread`, and before the tail the harness pushes notifies of this many KiB through the
    /// connection's `PeerHandle` until the bounded outbound queue reports Full and stays Full (the
    /// writer is stuck on a socket nobody reads): the tail then meets a cap that is saturated AND an
    /// outbound queue that is full
    Push(u32),
}
impl Fill {
    fn name(self) -> String {
        match self {
            Fill::None => "none".into(),
            Fill::Unread => "unread".into(),
            Fill::Push(k) => format!("push-{k}"),
        }
    }
    fn from(s: &str) -> Fill {
        match s {
            "unread" => Fill::Unread,
            _ => match s.strip_prefix("push-").and_then(|k| k.parse().ok()) {
                Some(k) => Fill::Push(k),
                None => Fill::None,
            },
        }
    }
}

#[derive(Clone, Debug, Hash)]
struct Script {
    burst: Vec<Item>,
    /// order in which the initially admitted handlers are released (indices into the admitted list)
    release: Vec<usize>,
    /// seed of the in-flight choices (refills, interleaved pings, instant batch, recovery outcomes)
    seed: u64,
    fill: Fill,
    /// after every exit of an admitted NOTIFY handler demand the freed slot back at once (one new parked
    /// request admitted within bounded retries) and check that one more request is rejected again
    refill_after_notify: bool,
}

#[derive(Clone, Debug, Hash)]
struct Case {
    cap: usize, // 0 = unlimited
    use_default_cap: bool,
    route: usize,
    mw: u8, // 0 none, 1 one middleware registered before the routes, 2 one before + one after
    scripts: Vec<Script>,
    exhaustive: bool,
    /// `with_outbound_capacity(..)`; 0 = the library default
    outbound: usize,
    family: &'static str,
}
const FAMILIES: [&str; 5] = ["exhaustive", "random", "notify-fill", "flood", "replay"];

fn item_str(i: &Item) -> String {
    match i {
        Item::Ping => "ping".into(),
        Item::Park { out, notify } => format!("{}{}", if *notify { "notify-" } else { "park-" }, out.name()),
    }
}
fn item_from(s: &str) -> Item {
    if s == "ping" {
        Item::Ping
    } else if let Some(o) = s.strip_prefix("notify-") {
        Item::Park { out: Out::from(o), notify: true }
    } else {
        Item::Park { out: Out::from(s.strip_prefix("park-").unwrap_or("ret")), notify: false }
    }
}
fn case_json(c: &Case) -> Value {
    json!({
        "cap": c.cap, "use_default_cap": c.use_default_cap, "route": ROUTES[c.route], "mw": c.mw, "exhaustive": c.exhaustive,
        "outbound_capacity_0_is_default": c.outbound, "family": c.family,
        "scripts": c.scripts.iter().map(|s| json!({
            "burst": s.burst.iter().map(item_str).collect::<Vec<_>>(), "release": s.release, "seed": s.seed.to_string(),
            "fill": s.fill.name(), "refill_after_notify": s.refill_after_notify
        })).collect::<Vec<_>>(),
    })
}
fn case_from_json(v: &Value) -> Option<Case> {
    let scripts = v["scripts"]
        .as_array()?
        .iter()
        .map(|s| Script {
            burst: s["burst"].as_array().map(|a| a.iter().map(|x| item_from(x.as_str().unwrap_or("ping"))).collect()).unwrap_or_default(),
            release: s["release"].as_array().map(|a| a.iter().map(|x| x.as_u64().unwrap_or(0) as usize).collect()).unwrap_or_default(),
            seed: s["seed"].as_str().and_then(|x| x.parse().ok()).unwrap_or(1),
            fill: Fill::from(s["fill"].as_str().unwrap_or("none")),
            refill_after_notify: s["refill_after_notify"].as_bool().unwrap_or(false),
        })
        .collect();
    Some(Case {
        cap: v["cap"].as_u64()? as usize,
        use_default_cap: v["use_default_cap"].as_bool().unwrap_or(false),
        route: ROUTES.iter().position(|r| Some(*r) == v["route"].as_str()).unwrap_or(0),
        mw: v["mw"].as_u64().unwrap_or(0) as u8,
        scripts,
        exhaustive: v["exhaustive"].as_bool().unwrap_or(false),
        outbound: v["outbound_capacity_0_is_default"].as_u64().unwrap_or(0) as usize,
        family: FAMILIES.iter().copied().find(|f| Some(*f) == v["family"].as_str()).unwrap_or("replay"),
    })
}

/// Number of off-reader messages the model admits from a burst on a fresh connection.
fn admitted_count(cap: usize, burst: &[Item]) -> usize {
    let n = burst.iter().filter(|i| matches!(i, Item::Park { .. })).count();
    if cap == 0 { n } else { n.min(cap) }
}

fn permutations(n: usize) -> Vec<Vec<usize>> {
    fn rec(cur: &mut Vec<usize>, used: &mut Vec<bool>, n: usize, out: &mut Vec<Vec<usize>>) {
        if cur.len() == n {
            out.push(cur.clone());
            return;
        }
        for i in 0..n {
            if !used[i] {
                used[i] = true;
                cur.push(i);
                rec(cur, used, n, out);
                cur.pop();
                used[i] = false;
            }
        }
    }
    let mut out = vec![];
    rec(&mut vec![], &mut vec![false; n], n, &mut out);
    out
}

/// Interleave `pings` inline pings at random positions of `parks`.
fn interleave(r: &mut Rng, parks: Vec<Item>, pings: usize) -> Vec<Item> {
    let mut v = parks;
    for _ in 0..pings {
        let at = r.usize_below(v.len() + 1);
        v.insert(at, Item::Ping);
    }
    v
}

fn random_script(r: &mut Rng, cap: usize) -> Script {
    let n = if cap == 0 { 1 + r.usize_below(40) } else { cap + 1 + r.usize_below(3 * cap) }; // cap+1 ..= 4*cap
    let parks: Vec<Item> = (0..n).map(|_| Item::Park { out: Out::pick(r), notify: r.chance(1, 4) }).collect();
    let pings = 1 + r.usize_below(4);
    let burst = interleave(r, parks, pings);
    let adm = admitted_count(cap, &burst);
    let mut release: Vec<usize> = (0..adm).collect();
    r.shuffle(&mut release);
    Script { burst, release, seed: r.next_u64(), fill: Fill::None, refill_after_notify: false }
}

/// (n) slots held by NOTIFY handlers: caps 1..4 × every request/notify pattern of the admitted set that has
/// at least one notify, followed by over-cap requests and notifies (which must be rejected / dropped while
/// notify handlers hold the slots); every notify exit must give its slot back at once.
fn notify_fill_cases(rng: &mut Rng, args: &Args) -> Vec<Case> {
    let mut cases = vec![];
    let mut push = |rng: &mut Rng, cap: usize, admitted: Vec<Item>, tail: Vec<Item>, outbound: usize| {
        let mut parks = admitted;
        parks.extend(tail);
        let pings = 1 + rng.usize_below(3);
        let burst = interleave(rng, parks, pings);
        let mut release: Vec<usize> = (0..cap).collect();
        rng.shuffle(&mut release);
        cases.push(Case {
            cap,
            use_default_cap: false,
            route: rng.usize_below(ROUTES.len()),
            mw: rng.below(3) as u8,
            scripts: vec![Script { burst, release, seed: rng.next_u64(), fill: Fill::None, refill_after_notify: true }],
            exhaustive: false,
            outbound,
            family: "notify-fill",
        });
    };
    let req = |o: Out| Item::Park { out: o, notify: false };
    let ntf = |o: Out| Item::Park { out: o, notify: true };
    // named shapes: more overlapping notifies than free slots
    let o = |r: &mut Rng| Out::pick(r);
    let named: Vec<(usize, Vec<Item>, Vec<Item>)> = vec![
        (1, vec![ntf(o(rng))], vec![ntf(o(rng)), req(o(rng))]),
        (2, vec![req(o(rng)), ntf(o(rng))], vec![ntf(o(rng)), ntf(o(rng)), req(o(rng))]),
        (2, vec![ntf(o(rng)), ntf(o(rng))], vec![req(o(rng)), ntf(o(rng)), req(o(rng))]),
        (3, vec![ntf(o(rng)), ntf(o(rng)), ntf(o(rng))], vec![ntf(o(rng)), req(o(rng))]),
        (4, vec![req(o(rng)), ntf(o(rng)), req(o(rng)), ntf(o(rng))], vec![ntf(o(rng)), ntf(o(rng)), req(o(rng))]),
    ];
    for (cap, a, t) in named {
        push(rng, cap, a, t, 0);
    }
    let variants = args.budget(2, 10).max(1);
    for v in 0..variants {
        for cap in 1..=4usize {
            for pat in 1..(1u32 << cap) {
                let admitted: Vec<Item> = (0..cap).map(|i| Item::Park { out: Out::pick(rng), notify: (pat >> i) & 1 == 1 }).collect();
                let mut tail = vec![req(Out::pick(rng)), ntf(Out::pick(rng))];
                for _ in 0..rng.usize_below(2 * cap + 1) {
                    tail.push(Item::Park { out: Out::pick(rng), notify: rng.coin() });
                }
                rng.shuffle(&mut tail);
                let outbound = if v % 2 == 1 { [1usize, 2, 4, 8][rng.usize_below(4)] } else { 0 };
                push(rng, cap, admitted, tail, outbound);
            }
        }
    }
    cases
}

/// (f) a saturated cap meets a full bounded outbound queue: outbound capacity {1,2,4,8,default} × caps 1..4 ×
/// {tail written in one flush to a client that does not read, the same with the queue pre-filled by large
/// pushed notifies}; K ≫ capacity over-cap requests, interleaved inline pings and over-cap notifies.
fn flood_cases(rng: &mut Rng, args: &Args) -> Vec<Case> {
    let mut cases = vec![];
    let variants = args.budget(1, 6).max(1);
    for _ in 0..variants {
        for &oc in &[1usize, 2, 4, 8, 0] {
            for cap in 1..=4usize {
                for push in [false, true] {
                    let k = match (oc, push) {
                        (0, true) => 24 + rng.usize_below(40),
                        (0, false) => 280 + rng.usize_below(40),
                        _ => (8 * oc + rng.usize_below(8 * oc + 1)).clamp(12, 96),
                    };
                    let mut parks: Vec<Item> = (0..cap).map(|_| Item::Park { out: Out::pick(rng), notify: rng.chance(1, 3) }).collect();
                    let mut tail: Vec<Item> = (0..k).map(|_| Item::Park { out: Out::pick(rng), notify: false }).collect();
                    for _ in 0..(k / 8 + 1) {
                        tail.push(Item::Park { out: Out::pick(rng), notify: true });
                    }
                    rng.shuffle(&mut tail);
                    parks.extend(tail);
                    let burst = interleave(rng, parks, k / 6 + 1);
                    let mut release: Vec<usize> = (0..cap).collect();
                    rng.shuffle(&mut release);
                    let fill = if push { Fill::Push(if oc == 0 { 16 } else { 128 }) } else { Fill::Unread };
                    cases.push(Case {
                        cap,
                        use_default_cap: false,
                        route: rng.usize_below(ROUTES.len()),
                        mw: rng.below(3) as u8,
                        scripts: vec![Script { burst, release, seed: rng.next_u64(), fill, refill_after_notify: rng.coin() }],
                        exhaustive: false,
                        outbound: oc,
                        family: "flood",
                    });
                }
            }
        }
    }
    cases
}

fn plan(args: &Args) -> Vec<Case> {
    let mut rng = Rng::new(args.seed ^ 0xC16);
    let mut cases = vec![];
    // (n) + (f) come first so that they always run inside the wall budget
    {
        let mut r2 = Rng::new(args.seed ^ 0xC16_00F1);
        let nf = notify_fill_cases(&mut r2, args);
        let fl = flood_cases(&mut r2, args);
        // `--stage notify-fill` / `--stage flood` run one of the two families alone (debugging, sensitivity runs)
        match args.stage.as_str() {
            "notify-fill" => return nf,
            "flood" => return fl,
            _ => {}
        }
        cases.extend(nf);
        cases.extend(fl);
    }
    // (a) exhaustive: caps 1..3 × every outcome assignment of the admitted handlers × every release order.
    // Thorough additionally enumerates request/notify for every admitted handler.
    for cap in 1..=3usize {
        let alphabet: Vec<(Out, bool)> = if args.thorough() {
            [Out::Ret, Out::Err, Out::Panic].iter().flat_map(|o| [(*o, false), (*o, true)]).collect()
        } else {
            [Out::Ret, Out::Err, Out::Panic].iter().map(|o| (*o, false)).collect()
        };
        let perms = permutations(cap);
        let combos = alphabet.len().pow(cap as u32);
        for combo in 0..combos {
            let mut c = combo;
            let admitted: Vec<Item> = (0..cap)
                .map(|_| {
                    let (out, notify) = alphabet[c % alphabet.len()];
                    c /= alphabet.len();
                    Item::Park { out, notify }
                })
                .collect();
            for perm in &perms {
                let extra = 1 + rng.usize_below(3 * cap);
                let mut parks = admitted.clone();
                for _ in 0..extra {
                    parks.push(Item::Park { out: Out::pick(&mut rng), notify: rng.chance(1, 3) });
                }
                // pings may go anywhere; the admitted prefix keeps its order because only pings are inserted
                let pings = 1 + rng.usize_below(3);
                let burst = interleave(&mut rng, parks, pings);
                cases.push(Case {
                    cap,
                    use_default_cap: false,
                    route: rng.usize_below(ROUTES.len()),
                    mw: rng.below(3) as u8,
                    scripts: vec![Script { burst, release: perm.clone(), seed: rng.next_u64(), fill: Fill::None, refill_after_notify: false }],
                    exhaustive: true,
                    outbound: 0,
                    family: "exhaustive",
                });
            }
        }
    }
    // (b) random: caps 4..16, the default cap, unlimited; 1..3 concurrent connections per server.
    let n_random = args.budget(700, 9000);
    for i in 0..n_random {
        let cap = match rng.below(10) {
            0 => 0,
            1 => 16,
            2 => 1 + rng.usize_below(3),
            _ => 4 + rng.usize_below(13),
        };
        let conns = match rng.below(6) {
            0 => 2,
            1 => 3,
            _ => 1,
        };
        let conns = if cap == 0 { 1 } else { conns };
        let scripts = (0..conns).map(|_| random_script(&mut rng, cap)).collect();
        cases.push(Case {
            cap,
            use_default_cap: cap == 16 && rng.coin(),
            route: (i as usize) % ROUTES.len(),
            mw: rng.below(3) as u8,
            scripts,
            exhaustive: false,
            // a quarter of the random cases run with a tiny bounded outbound queue (client reads normally)
            outbound: if rng.chance(1, 4) { [1usize, 2, 4, 8][rng.usize_below(4)] } else { 0 },
            family: "random",
        });
    }
    cases
}

// ------------------------------------------------------------------ server side (workload handlers)

enum Ev {
    Started { tok: u64, running: u64 },
    Exited { tok: u64 },
}

struct Shared {
    gauges: Mutex<HashMap<u64, (u64, u64)>>, // conn → (running, max)
    gates: Mutex<HashMap<u64, std::sync::mpsc::Receiver<()>>>,
    ev: Mutex<HashMap<u64, UnboundedSender<Ev>>>, // conn → driver
    /// every peer handed to `on_peer_connect` (the flood scenarios push through it)
    peers: Mutex<Vec<PeerHandle>>,
    mw_calls: AtomicU64,
    ctx_peer_seen: AtomicU64,
    gate_timeouts: AtomicU64,
    hook_saturation: AtomicU64,
    hook_panic: AtomicU64,
    hook_other: AtomicU64,
    /// hammer family only (one connection per server): connection id and cap the saturation hook judges
    /// against, the phase the driver is in (0 = hammer, 1 = probe), and what the hook saw: the RAII gauge
    /// of running handlers read ON THE READER at the moment it rejected a message
    hammer_conn: AtomicU64,
    hammer_cap: AtomicU64,
    hammer_phase: AtomicU64,
    hammer_rej_at_cap: AtomicU64,
    hammer_rej_below_cap: AtomicU64,
    probe_rej_at_cap: AtomicU64,
    probe_rej_below_cap: AtomicU64,
}

impl Shared {
    fn new() -> Arc<Shared> {
        Arc::new(Shared {
            gauges: Mutex::new(HashMap::new()),
            gates: Mutex::new(HashMap::new()),
            ev: Mutex::new(HashMap::new()),
            peers: Mutex::new(vec![]),
            mw_calls: AtomicU64::new(0),
            ctx_peer_seen: AtomicU64::new(0),
            gate_timeouts: AtomicU64::new(0),
            hook_saturation: AtomicU64::new(0),
            hook_panic: AtomicU64::new(0),
            hook_other: AtomicU64::new(0),
            hammer_conn: AtomicU64::new(0),
            hammer_cap: AtomicU64::new(0),
            hammer_phase: AtomicU64::new(0),
            hammer_rej_at_cap: AtomicU64::new(0),
            hammer_rej_below_cap: AtomicU64::new(0),
            probe_rej_at_cap: AtomicU64::new(0),
            probe_rej_below_cap: AtomicU64::new(0),
        })
    }
    fn emit(&self, conn: u64, ev: Ev) {
        if let Some(tx) = self.ev.lock().unwrap_or_else(|e| e.into_inner()).get(&conn) {
            let _ = tx.send(ev);
        }
    }
    fn gauge(&self, conn: u64) -> (u64, u64) {
        self.gauges.lock().unwrap_or_else(|e| e.into_inner()).get(&conn).copied().unwrap_or((0, 0))
    }
}

/// RAII gauge: increments on entry, decrements on drop (so a panic decrements as well).
struct Running<'a> {
    sh: &'a Shared,
    conn: u64,
    tok: u64,
}
impl<'a> Running<'a> {
    fn enter(sh: &'a Shared, conn: u64, tok: u64) -> Running<'a> {
        let running = {
            let mut g = sh.gauges.lock().unwrap_or_else(|e| e.into_inner());
            let e = g.entry(conn).or_insert((0, 0));
            e.0 += 1;
            e.1 = e.1.max(e.0);
            e.0
        };
        sh.emit(conn, Ev::Started { tok, running });
        Running { sh, conn, tok }
    }
}
impl Drop for Running<'_> {
    fn drop(&mut self) {
        {
            let mut g = self.sh.gauges.lock().unwrap_or_else(|e| e.into_inner());
            if let Some(e) = g.get_mut(&self.conn) {
                e.0 = e.0.saturating_sub(1);
            }
        }
        self.sh.emit(self.conn, Ev::Exited { tok: self.tok });
    }
}

/// The body of every blocking route: count, park on the request's gate, then exit as scripted.
fn park(sh: &Shared, v: &Value) -> Result<Value, (ErrorCode, String)> {
    let tok = v["tok"].as_u64().unwrap_or(0);
    let conn = v["conn"].as_u64().unwrap_or(0);
    let out = Out::from(v["out"].as_str().unwrap_or("ret"));
    let _running = Running::enter(sh, conn, tok);
    let gate = sh.gates.lock().unwrap_or_else(|e| e.into_inner()).remove(&tok);
    if let Some(rx) = gate {
        // Ok(()) = released; Disconnected = the driver gave up on the scenario; Timeout = harness trouble
        if let Err(std::sync::mpsc::RecvTimeoutError::Timeout) = rx.recv_timeout(Duration::from_secs(45)) {
            sh.gate_timeouts.fetch_add(1, Ordering::Relaxed);
        }
    }
    match out {
        Out::Ret => Ok(json!({ "tok": tok })),
        Out::Err => Err((ErrorCode::ApplicationErrorBase, format!("E{tok}"))),
        // Most scripted panics unwind without running the panic hook (identical for the code under test:
        // an unwind out of the handler) so that a thorough run does not print 10^5 panic messages;
        // the first three of a run are plain `panic!`s.
        Out::Panic if PLAIN_PANICS.fetch_add(1, Ordering::Relaxed) < 3 => panic!("c16 scripted handler panic {tok}"),
        // panic payloads of every shape a handler can produce: String, &'static str, and non-string payloads
        // (std::panic::panic_any / a resumed foreign payload); the reply must not depend on the payload type
        Out::Panic => match tok % 4 {
            0 => std::panic::resume_unwind(Box::new(format!("c16 scripted handler panic {tok}"))),
            1 => std::panic::resume_unwind(Box::new("c16 scripted handler panic (static str)")),
            2 => std::panic::resume_unwind(Box::new(ScriptedPanicPayload { token: tok })),
            _ => std::panic::resume_unwind(Box::new(tok)),
        },
    }
}

struct CountingMw(Arc<Shared>);
impl Middleware for CountingMw {
    fn handle(&self, req: &Message, next: Next<'_>) -> Result<Message, RepeError> {
        self.0.mw_calls.fetch_add(1, Ordering::Relaxed);
        next.run(req)
    }
}

/// A hand-written off-reader handler (custom `HandlerErased` whose `execution` is `OffReader`).
struct ErasedPark(Arc<Shared>);
impl HandlerErased for ErasedPark {
    fn handle(&self, req: &Message) -> Result<Message, RepeError> {
        let v: Value = serde_json::from_slice(&req.body)?;
        match park(&self.0, &v) {
            Ok(val) => Ok(Message::builder().id(req.header.id).query_format_code(req.header.query_format).body_json(&val)?.build()),
            Err((_, msg)) => Err(RepeError::Io(std::io::Error::other(msg))),
        }
    }
    fn handle_with_ctx(&self, req: &Message, ctx: &CallContext) -> Result<Message, RepeError> {
        if ctx.peer().is_some() {
            self.0.ctx_peer_seen.fetch_add(1, Ordering::Relaxed);
        }
        self.handle(req)
    }
    fn execution(&self) -> Execution {
        Execution::OffReader
    }
}

fn build_router(sh: &Arc<Shared>, route: usize, mw: u8) -> Router {
    let mut r = Router::new();
    if mw >= 1 {
        r = r.with_middleware(CountingMw(sh.clone()));
    }
    r = r.with_json("/ping", |v| Ok(json!({ "pong": v["tok"].clone() })));
    let s = sh.clone();
    r = match route {
        0 => r.with_json_blocking("/park", move |v| park(&s, &v)),
        1 => r.with_json_ctx_blocking("/park", move |ctx: &CallContext, v| {
            if ctx.peer().is_some() {
                s.ctx_peer_seen.fetch_add(1, Ordering::Relaxed);
            }
            park(&s, &v)
        }),
        2 => r.with_typed_blocking::<Value, Value, _>("/park", move |v: Value| park(&s, &v)),
        3 => r.with_typed_ctx_blocking::<Value, Value, _>("/park", move |ctx: &CallContext, v: Value| {
            if ctx.peer().is_some() {
                s.ctx_peer_seen.fetch_add(1, Ordering::Relaxed);
            }
            park(&s, &v)
        }),
        _ => r.with_erased_handler("/park", Arc::new(ErasedPark(s))),
    };
    if mw >= 2 {
        r = r.with_middleware(CountingMw(sh.clone()));
    }
    r
}

// ------------------------------------------------------------------ raw client driver

#[derive(Clone, Debug)]
enum Exp {
    Ping { tok: u64 },
    /// an off-reader request sent while the model says the cap is reached
    Reject,
    /// an off-reader request that may run; `released` = its gate was opened (or it has none)
    Call { tok: u64, out: Out, released: bool, may_reject: bool },
}

#[derive(Default, Clone)]
struct Stats {
    frames: u64,
    admitted: u64,
    overcap_requests_rejected: u64,
    overcap_notifies: u64,
    pings_answered_during_saturation: u64,
    pings_answered: u64,
    panic_replies: u64,
    error_replies: u64,
    return_replies: u64,
    refills: u64,
    instants: u64,
    instants_rejected: u64,
    recovered_slots: u64,
    retries: u64,
    max_retries: u64,
    rejects_seen: u64,
    gauge_max: u64,
    started_events: u64,
    saturations_reached: u64,
    recovery_probe_rejected: u64,
    notify_handlers_parked: u64,
    saturations_with_notify_slots: u64,
    refills_after_notify_exit: u64,
    probes_rejected_after_notify_refill: u64,
    flood_scripts: u64,
    flood_tail_requests: u64,
    flood_tail_rejected_ec8: u64,
    flood_tail_pings_answered: u64,
    flood_saturations_seen_before_first_read: u64,
    flood_tails_fully_processed_before_first_read: u64,
    flood_reader_stalled_on_full_queue: u64,
    push_fills_reached_full: u64,
    push_fills_gave_up: u64,
    pushed_sent: u64,
    pushed_bytes: u64,
    pushed_received: u64,
    pushed_full_results: u64,
    hammer_rounds: u64,
    hammer_rounds_cut_by_time: u64,
    hammer_requests: u64,
    hammer_replies_return: u64,
    hammer_replies_error: u64,
    hammer_replies_panic: u64,
    hammer_replies_ec8: u64,
    hammer_max_in_flight: u64,
    hammer_ms: u64,
    hammer_idle_points: u64,
    probe_rounds_completed: u64,
    probe_admitted: u64,
    probe_rejections_retried: u64,
    probe_extra_rejected: u64,
    probe_released_replies: u64,
}
impl Stats {
    fn add(&mut self, o: &Stats, capped: bool) {
        macro_rules! sum { ($($f:ident),*) => { $( self.$f += o.$f; )* } }
        sum!(
            frames, admitted, overcap_requests_rejected, overcap_notifies, pings_answered_during_saturation, pings_answered,
            panic_replies, error_replies, return_replies, refills, instants, instants_rejected, recovered_slots, retries,
            rejects_seen, started_events, saturations_reached, recovery_probe_rejected, notify_handlers_parked,
            saturations_with_notify_slots, refills_after_notify_exit, probes_rejected_after_notify_refill, flood_scripts,
            flood_tail_requests, flood_tail_rejected_ec8, flood_tail_pings_answered, flood_saturations_seen_before_first_read,
            flood_tails_fully_processed_before_first_read, flood_reader_stalled_on_full_queue, push_fills_reached_full,
            push_fills_gave_up, pushed_sent, pushed_bytes, pushed_received, pushed_full_results, hammer_rounds,
            hammer_rounds_cut_by_time, hammer_requests, hammer_replies_return, hammer_replies_error, hammer_replies_panic,
            hammer_replies_ec8, hammer_ms, hammer_idle_points, probe_rounds_completed, probe_admitted, probe_rejections_retried,
            probe_extra_rejected, probe_released_replies
        );
        self.max_retries = self.max_retries.max(o.max_retries);
        self.hammer_max_in_flight = self.hammer_max_in_flight.max(o.hammer_max_in_flight);
        if capped {
            self.gauge_max = self.gauge_max.max(o.gauge_max);
        }
    }
}

struct Drv {
    ws: Ws,
    ev_rx: UnboundedReceiver<Ev>,
    sh: Arc<Shared>,
    hb: Arc<Heartbeat>,
    conn: u64,
    cap: usize,
    tag: String,
    /// tokens of pushed notifies accepted by the outbound queue and not yet seen on the wire
    pushed: HashSet<u64>,
    next_id: u64,
    next_tok: u64,
    pending: HashMap<u64, Exp>,
    gates: HashMap<u64, std::sync::mpsc::Sender<()>>,
    started: HashSet<u64>,
    exited: HashSet<u64>,
    /// tokens whose handler must never run: tok → (is_notify, why)
    forbidden: HashMap<u64, bool>,
    notify_ids: HashSet<u64>,
    got8: HashSet<u64>,
    saturated_now: bool,
    /// set while a failed wait is being diagnosed: inputs are consumed but no longer judged
    diagnosing: bool,
    exit_kinds: HashSet<Out>,
    closed: Option<String>,
    viols: Vec<(String, String)>,
    inconcl: Vec<String>,
    st: Stats,
    order: Vec<(u8, u64)>,
}

fn req_frame(id: u64, notify: bool, path: &str, body: &Value) -> Vec<u8> {
    let h = SpecHeader { spec: oracle::SPEC, version: 1, notify: notify as u8, id, query_format: 1, body_format: 2, ..Default::default() };
    oracle::frame(h, path.as_bytes(), serde_json::to_vec(body).unwrap().as_slice())
}

impl Drv {
    fn new(ws: Ws, ev_rx: UnboundedReceiver<Ev>, sh: Arc<Shared>, hb: Arc<Heartbeat>, conn: u64, cap: usize, tag: &str) -> Drv {
        Drv {
            ws,
            ev_rx,
            sh,
            hb,
            conn,
            cap,
            tag: tag.to_string(),
            pushed: HashSet::new(),
            next_id: 0,
            next_tok: 0,
            pending: HashMap::new(),
            gates: HashMap::new(),
            started: HashSet::new(),
            exited: HashSet::new(),
            forbidden: HashMap::new(),
            notify_ids: HashSet::new(),
            got8: HashSet::new(),
            saturated_now: false,
            diagnosing: false,
            exit_kinds: HashSet::new(),
            closed: None,
            viols: vec![],
            inconcl: vec![],
            st: Stats::default(),
            order: vec![],
        }
    }
    fn viol(&mut self, sig: impl Into<String>, detail: impl Into<String>) {
        self.viols.push((sig.into(), detail.into()));
    }
    /// A verdict that needs the machine to have made progress: inconclusive when a stall was seen.
    fn progress_viol(&mut self, sig: impl Into<String>, detail: impl Into<String>) {
        let gap = self.hb.max_gap_ms();
        if gap > 1000 {
            self.inconcl.push(format!("{} suppressed: heartbeat saw a {gap} ms stall ({})", sig.into(), detail.into()));
        } else {
            self.viols.push((sig.into(), detail.into()));
        }
    }
    fn new_tok(&mut self) -> u64 {
        self.next_tok += 1;
        self.conn * 1_000_000 + self.next_tok
    }
    fn new_id(&mut self) -> u64 {
        self.next_id += 1;
        // ids are spread out so a truncated / zeroed id cannot collide with a live one
        self.conn.wrapping_mul(0x0001_0000_0001) ^ (self.next_id << 8) | 1
    }
    fn add_gate(&mut self, tok: u64) {
        let (tx, rx) = std::sync::mpsc::channel();
        self.sh.gates.lock().unwrap_or_else(|e| e.into_inner()).insert(tok, rx);
        self.gates.insert(tok, tx);
    }
    fn drop_gate(&mut self, tok: u64) {
        self.gates.remove(&tok);
        self.sh.gates.lock().unwrap_or_else(|e| e.into_inner()).remove(&tok);
    }
    fn release(&mut self, tok: u64) {
        if let Some(tx) = self.gates.remove(&tok) {
            let _ = tx.send(());
        }
        for e in self.pending.values_mut() {
            if let Exp::Call { tok: t, released, .. } = e {
                if *t == tok {
                    *released = true;
                }
            }
        }
    }
    fn park_body(&self, tok: u64, out: Out) -> Value {
        json!({ "tok": tok, "conn": self.conn, "out": out.name() })
    }
    async fn send_all(&mut self, frames: Vec<Vec<u8>>) {
        for f in frames {
            if let Err(e) = self.ws.feed(WsMsg::Binary(f)).await {
                self.closed = Some(format!("send failed: {e}"));
                return;
            }
        }
        if let Err(e) = self.ws.flush().await {
            self.closed = Some(format!("flush failed: {e}"));
        }
    }

    /// Process one input (frame or handler event). false = deadline passed or connection gone.
    async fn pump(&mut self, dl: Instant) -> bool {
        if self.closed.is_some() {
            return false;
        }
        let left = dl.saturating_duration_since(Instant::now());
        if left.is_zero() {
            return false;
        }
        tokio::select! {
            biased;
            ev = self.ev_rx.recv() => {
                match ev {
                    Some(e) => self.on_event(e),
                    None => { self.closed = Some("event channel closed".into()); return false; }
                }
                true
            }
            m = self.ws.next() => {
                match m {
                    Some(Ok(WsMsg::Binary(b))) => { self.on_frame(&b); true }
                    Some(Ok(WsMsg::Close(c))) => { self.closed = Some(format!("close frame {c:?}")); false }
                    Some(Ok(_)) => true,
                    Some(Err(e)) => { self.closed = Some(format!("transport error: {e}")); false }
                    None => { self.closed = Some("stream ended".into()); false }
                }
            }
            _ = tokio::time::sleep(left) => false,
        }
    }

    fn on_event(&mut self, e: Ev) {
        if self.diagnosing {
            match e {
                Ev::Started { tok, .. } => self.started.insert(tok),
                Ev::Exited { tok } => self.exited.insert(tok),
            };
            return;
        }
        match e {
            Ev::Started { tok, running } => {
                self.st.started_events += 1;
                self.order.push((1, tok % 1_000_000));
                if !self.started.insert(tok) {
                    self.viol("C16:handler-ran-twice", format!("the off-reader handler for token {tok} (one message) started a second time; cap {}", self.cap));
                }
                self.st.gauge_max = self.st.gauge_max.max(running);
                if self.cap > 0 && running > self.cap as u64 {
                    self.viol("C16:gauge-over-cap", format!("handler for token {tok} observed {running} running off-reader handlers on its connection, cap {}", self.cap));
                }
                if let Some(is_notify) = self.forbidden.get(&tok).copied() {
                    if is_notify {
                        self.viol("C16:over-cap-notify-ran-handler", format!("notify with token {tok} was sent while {} handlers were parked (cap {}) and its handler ran", self.cap, self.cap));
                    } else {
                        self.viol("C16:over-cap-request-ran-handler", format!("request with token {tok} was sent at / rejected by the cap ({}) and its handler ran", self.cap));
                    }
                }
            }
            Ev::Exited { tok } => {
                self.order.push((2, tok % 1_000_000));
                self.exited.insert(tok);
            }
        }
    }

    fn on_frame(&mut self, b: &[u8]) {
        self.st.frames += 1;
        let Some((h, ql, _bl)) = oracle::valid_parse(b, true) else {
            self.viol("C16:malformed-frame", format!("server sent a binary message that is not one consistent REPE frame: {}", hex_trunc(b, 80)));
            return;
        };
        let body = &b[oracle::HDR + ql..];
        self.order.push((3, h.id & 0xffff_ffff));
        if self.diagnosing {
            self.pending.remove(&h.id);
            return;
        }
        if h.notify != 0 && &b[oracle::HDR..oracle::HDR + ql] == b"/pushed" {
            // a notify the harness itself pushed through the PeerHandle: {"push":<tok>,"pad":"pp.."}
            let tok = body.strip_prefix(b"{\"push\":").map(|r| r.iter().take_while(|c| c.is_ascii_digit()).fold(0u64, |a, c| a.wrapping_mul(10).wrapping_add((c - b'0') as u64)));
            match tok {
                Some(t) if self.pushed.remove(&t) => self.st.pushed_received += 1,
                _ => self.viol("C16:unexpected-notify-frame", format!("a /pushed notify arrived that the harness did not push (or arrived twice): body {:?}", String::from_utf8_lossy(&body[..body.len().min(40)]))),
            }
            return;
        }
        if h.notify != 0 || self.notify_ids.contains(&h.id) {
            let sig = if self.notify_ids.contains(&h.id) { "C16:notify-produced-frame" } else { "C16:unexpected-notify-frame" };
            self.viol(sig, format!("frame id {} notify {} ec {} body {:?} (a notify must never be answered; cap {})", h.id, h.notify, h.ec, String::from_utf8_lossy(&body[..body.len().min(80)]), self.cap));
            return;
        }
        let Some(exp) = self.pending.remove(&h.id) else {
            self.viol("C16:unexpected-frame", format!("response with id {} ec {} matches no outstanding request (duplicate, or wrong id): body {:?}", h.id, h.ec, String::from_utf8_lossy(&body[..body.len().min(80)])));
            return;
        };
        let text = String::from_utf8_lossy(&body[..body.len().min(120)]).to_string();
        match exp {
            Exp::Ping { tok } => {
                let ok = h.ec == 0 && serde_json::from_slice::<Value>(body).map(|v| v["pong"].as_u64() == Some(tok)).unwrap_or(false);
                if ok {
                    self.st.pings_answered += 1;
                    if self.saturated_now {
                        self.st.pings_answered_during_saturation += 1;
                    }
                } else {
                    self.viol(format!("C16:inline-wrong-reply:ec={}", h.ec), format!("ping with token {tok} answered with ec {} body {text:?}", h.ec));
                }
            }
            Exp::Reject => {
                if h.ec == 8 {
                    self.st.overcap_requests_rejected += 1;
                    self.st.rejects_seen += 1;
                } else {
                    self.viol(format!("C16:over-cap-wrong-reply:ec={}", h.ec), format!("request id {} sent while the cap ({}) was reached was answered with ec {} body {text:?} instead of ResourceExhausted (8)", h.id, self.cap, h.ec));
                }
            }
            Exp::Call { tok, out, released, may_reject } => {
                if h.ec == 8 {
                    self.st.rejects_seen += 1;
                    if self.started.contains(&tok) {
                        self.viol("C16:rejected-request-ran-handler", format!("request id {} token {tok} was answered with ec 8 although its handler ran; cap {}", h.id, self.cap));
                        return;
                    }
                    if may_reject {
                        self.got8.insert(h.id);
                        self.forbidden.insert(tok, false);
                    } else {
                        self.viol("C16:rejected-below-cap:fresh-connection", format!("request id {} (token {tok}) was among the first {} off-reader messages of a fresh connection and was rejected with ec 8", h.id, self.cap));
                    }
                    return;
                }
                if !released {
                    self.viol("C16:response-before-release", format!("parked request id {} token {tok} was answered (ec {} body {text:?}) before its gate was opened", h.id, h.ec));
                    return;
                }
                self.exit_kinds.insert(out);
                match out {
                    Out::Ret => {
                        let ok = h.ec == 0 && serde_json::from_slice::<Value>(body).map(|v| v["tok"].as_u64() == Some(tok)).unwrap_or(false);
                        if ok {
                            self.st.return_replies += 1;
                        } else {
                            self.viol(format!("C16:returning-handler-wrong-reply:ec={}", h.ec), format!("request id {} token {tok}: handler returned normally but the reply is ec {} body {text:?}", h.id, h.ec));
                        }
                    }
                    Out::Err => {
                        let ok = h.ec != 0 && h.ec != 8 && h.ec != 9 && text.contains(&format!("E{tok}"));
                        if ok {
                            self.st.error_replies += 1;
                        } else {
                            self.viol(format!("C16:erroring-handler-wrong-reply:ec={}", h.ec), format!("request id {} token {tok}: handler returned an application error but the reply is ec {} body {text:?}", h.id, h.ec));
                        }
                    }
                    Out::Panic => {
                        if h.ec == 9 {
                            self.st.panic_replies += 1;
                        } else {
                            self.viol(format!("C16:panic-wrong-reply:ec={}", h.ec), format!("request id {} token {tok}: handler panicked but the reply is ec {} body {text:?} instead of InternalError (9)", h.id, h.ec));
                        }
                    }
                }
            }
        }
    }

    /// Wait (handler events only — the socket is NOT read) until `toks` have all started.
    async fn await_started_unread(&mut self, toks: &[u64]) -> bool {
        let dl = Instant::now() + WINDOW;
        while !toks.iter().all(|t| self.started.contains(t)) && self.viols.is_empty() {
            let left = dl.saturating_duration_since(Instant::now());
            if left.is_zero() {
                return false;
            }
            match tokio::time::timeout(left, self.ev_rx.recv()).await {
                Ok(Some(e)) => self.on_event(e),
                Ok(None) => {
                    self.closed = Some("event channel closed".into());
                    return false;
                }
                Err(_) => return false,
            }
        }
        self.viols.is_empty()
    }

    fn drain_events(&mut self) {
        while let Ok(e) = self.ev_rx.try_recv() {
            self.on_event(e);
        }
    }

    /// Push notifies of `kib` KiB through the connection's PeerHandle until the bounded outbound queue
    /// answers Full five times in a row over ≥ 40 ms (the writer is stuck on the unread socket).
    /// Ok(true) = the queue is full and stays full; Ok(false) = could not be filled (scenario goes on
    /// as a plain unread burst); Err = harness trouble.
    async fn fill_outbound(&mut self, kib: u32) -> Result<bool, String> {
        let peer = {
            let p = self.sh.peers.lock().unwrap_or_else(|e| e.into_inner());
            if p.len() != 1 {
                return Err(format!("{} peers seen by on_peer_connect, expected exactly one", p.len()));
            }
            p[0].clone()
        };
        let pad = "p".repeat(kib as usize * 1024);
        let t0 = Instant::now();
        let (mut fulls, mut bytes, mut sent) = (0u32, 0u64, 0u64);
        loop {
            if t0.elapsed() > Duration::from_secs(6) || bytes > 96 << 20 {
                self.st.push_fills_gave_up += 1;
                return Ok(false);
            }
            let tok = self.new_tok();
            let body = format!("{{\"push\":{tok},\"pad\":\"{pad}\"}}").into_bytes();
            let n = body.len() as u64;
            match peer.send_notify("/pushed", NotifyBody::Json(body)) {
                Ok(()) => {
                    self.pushed.insert(tok);
                    self.st.pushed_sent += 1;
                    self.st.pushed_bytes += n;
                    bytes += n;
                    sent += 1;
                    fulls = 0;
                    if sent % 8 == 0 {
                        tokio::task::yield_now().await;
                    }
                }
                Err(PeerSendError::Full) => {
                    self.st.pushed_full_results += 1;
                    fulls += 1;
                    if fulls >= 5 {
                        self.st.push_fills_reached_full += 1;
                        return Ok(true);
                    }
                    tokio::time::sleep(Duration::from_millis(10)).await;
                }
                Err(e) => return Err(format!("push through the PeerHandle failed: {e}")),
            }
        }
    }

    /// After an unread tail was written: give the server time to process it, judged by the on_error
    /// saturation count (one per over-cap message) — until all `expect` were seen, or the count stopped
    /// moving for 250 ms (the reader is legitimately waiting for room in the outbound queue), or 3 s.
    async fn await_tail_processed(&mut self, base: u64, expect: u64) {
        let t0 = Instant::now();
        let mut last = 0u64;
        let mut last_change = Instant::now();
        let cur = loop {
            let cur = self.sh.hook_saturation.load(Ordering::Relaxed).saturating_sub(base);
            self.drain_events();
            if cur >= expect {
                break cur;
            }
            if cur != last {
                last = cur;
                last_change = Instant::now();
            }
            if last_change.elapsed() > Duration::from_millis(250) || t0.elapsed() > Duration::from_secs(3) {
                break cur;
            }
            tokio::time::sleep(Duration::from_millis(2)).await;
        };
        self.st.flood_saturations_seen_before_first_read += cur.min(expect);
        if cur >= expect {
            self.st.flood_tails_fully_processed_before_first_read += 1;
        } else {
            self.st.flood_reader_stalled_on_full_queue += 1;
        }
    }

    fn outstanding_immediates(&self) -> Vec<(u64, &'static str)> {
        let mut v: Vec<(u64, &'static str)> = self
            .pending
            .iter()
            .filter_map(|(id, e)| match e {
                Exp::Ping { .. } => Some((*id, "inline-request")),
                Exp::Reject => Some((*id, "over-cap-request")),
                _ => None,
            })
            .collect();
        v.sort();
        v
    }

    /// Wait until every reply that must come without any gate being opened has arrived and
    /// `toks` have all started. On failure: diagnose (open all gates, see whether the replies
    /// come then), record the verdict and return false.
    async fn await_immediates(&mut self, toks: &[u64], phase: &str) -> bool {
        let dl = Instant::now() + WINDOW;
        loop {
            let done = self.outstanding_immediates().is_empty() && toks.iter().all(|t| self.started.contains(t) || self.forbidden.contains_key(t));
            if done || !self.viols.is_empty() {
                break;
            }
            if !self.pump(dl).await {
                break;
            }
        }
        if !self.viols.is_empty() {
            return false;
        }
        if let Some(why) = self.closed.clone() {
            self.viol(format!("C16:connection-lost:{phase}"), format!("connection ended ({why}) while {} handlers were parked; cap {}", toks.len(), self.cap));
            return false;
        }
        let missing = self.outstanding_immediates();
        if missing.is_empty() {
            let not_started: Vec<u64> = toks.iter().filter(|t| !self.started.contains(t)).copied().collect();
            if not_started.is_empty() {
                return true;
            }
            self.inconcl.push(format!("{phase}: {} admitted handlers did not start within {:?} (blocking pool starved?)", not_started.len(), WINDOW));
            return false;
        }
        // diagnosis: do the replies come once the parked handlers are let go?
        self.diagnosing = true;
        let parked: Vec<u64> = self.gates.keys().copied().collect();
        let n_parked = parked.len();
        for t in parked {
            self.release(t);
        }
        let dl2 = Instant::now() + Duration::from_secs(4);
        while !self.outstanding_immediates().is_empty() && self.pump(dl2).await {}
        let still = self.outstanding_immediates();
        let mut kinds: Vec<&'static str> = missing.iter().map(|m| m.1).collect();
        kinds.dedup();
        kinds.sort();
        kinds.dedup();
        for kind in kinds {
            let came_later = !still.iter().any(|s| s.1 == kind);
            let sig = if came_later { format!("C16:{kind}-answered-only-after-release:{}", self.tag) } else { format!("C16:{kind}-never-answered:{}", self.tag) };
            let n = missing.iter().filter(|m| m.1 == kind).count();
            self.progress_viol(
                sig,
                format!(
                    "{phase}: {n} {kind} replies did not arrive within {:?} while {n_parked} handlers were parked (cap {}); after opening every gate they {}",
                    WINDOW,
                    self.cap,
                    if came_later { "arrived" } else { "still did not arrive within 4 s" }
                ),
            );
        }
        false
    }

    /// Wait for the reply of request `id` (its gate has been opened).
    async fn await_reply(&mut self, id: u64, what: &str) -> bool {
        let dl = Instant::now() + WINDOW;
        while self.pending.contains_key(&id) && self.viols.is_empty() {
            if !self.pump(dl).await {
                break;
            }
        }
        if !self.viols.is_empty() {
            return false;
        }
        if let Some(why) = self.closed.clone() {
            self.viol(format!("C16:connection-lost:{what}"), format!("connection ended ({why}) while waiting for the reply to request id {id}; cap {}", self.cap));
            return false;
        }
        if let Some(exp) = self.pending.get(&id).cloned() {
            let (cur, max) = self.sh.gauge(self.conn);
            match exp {
                Exp::Call { tok, .. } => {
                    let (st, ex) = (self.started.contains(&tok), self.exited.contains(&tok));
                    let had_gate = what.starts_with("released-");
                    if had_gate && st && !ex {
                        // between the gate and the handler's return there is only harness code and the OS scheduler
                        self.inconcl.push(format!("{what}: handler of request id {id} did not return within {:?} after its gate was opened (gauge {cur}/{max}); harness or scheduling trouble", WINDOW));
                    } else {
                        let state = if ex { "handler-returned" } else if st { "handler-running" } else { "handler-never-started" };
                        // triage evidence: is the connection still serving inline calls, does the reply come late?
                        let (pid, ptok) = (self.new_id(), self.new_tok());
                        self.pending.insert(pid, Exp::Ping { tok: ptok });
                        self.send_all(vec![req_frame(pid, false, "/ping", &json!({ "tok": ptok }))]).await;
                        let dl2 = Instant::now() + Duration::from_secs(5);
                        while (self.pending.contains_key(&pid) || self.pending.contains_key(&id)) && self.pump(dl2).await {}
                        let ping_ok = !self.pending.contains_key(&pid);
                        let late = !self.pending.contains_key(&id);
                        self.progress_viol(
                            format!("C16:no-reply:{what}:{state}"),
                            format!(
                                "request id {id} token {tok} got no reply within {:?}; its handler started={st} returned={ex}; gauge now {cur} (max {max}); cap {}; a ping sent afterwards was answered={ping_ok}; the reply arrived in the next 5 s={late}",
                                WINDOW, self.cap
                            ),
                        );
                    }
                }
                _ => self.progress_viol(format!("C16:no-reply:{what}"), format!("request id {id} got no reply within {:?}; gauge now {cur} (max {max}); cap {}", WINDOW, self.cap)),
            }
            return false;
        }
        true
    }

    async fn ping(&mut self, phase: &str) -> bool {
        let id = self.new_id();
        let tok = self.new_tok();
        self.pending.insert(id, Exp::Ping { tok });
        self.send_all(vec![req_frame(id, false, "/ping", &json!({ "tok": tok }))]).await;
        self.await_reply(id, &format!("inline-{phase}")).await
    }

    /// Send one parked request and retry on ec 8 until its handler has started.
    async fn admit_with_retries(&mut self, out: Out, phase: &str) -> Option<(u64, u64)> {
        self.admit_with_retries_within(out, phase, Duration::from_secs(12), 400).await
    }

    /// `admit_with_retries` with an explicit window and attempt bound.
    async fn admit_with_retries_within(&mut self, out: Out, phase: &str, window: Duration, attempts: u64) -> Option<(u64, u64)> {
        let overall = Instant::now() + window;
        for attempt in 0..attempts {
            let id = self.new_id();
            let tok = self.new_tok();
            self.add_gate(tok);
            self.pending.insert(id, Exp::Call { tok, out, released: false, may_reject: true });
            let body = self.park_body(tok, out);
            self.send_all(vec![req_frame(id, false, "/park", &body)]).await;
            while !self.started.contains(&tok) && !self.got8.contains(&id) && self.viols.is_empty() {
                if !self.pump(overall).await {
                    break;
                }
            }
            if !self.viols.is_empty() {
                return None;
            }
            if self.started.contains(&tok) {
                self.st.retries += attempt;
                self.st.max_retries = self.st.max_retries.max(attempt);
                return Some((id, tok));
            }
            if self.got8.contains(&id) {
                self.drop_gate(tok);
                if Instant::now() >= overall {
                    break;
                }
                tokio::time::sleep(Duration::from_millis((1 + attempt / 4).min(25))).await;
                continue;
            }
            if let Some(why) = self.closed.clone() {
                self.viol(format!("C16:connection-lost:{phase}"), format!("connection ended ({why}) during {phase}; cap {}", self.cap));
                return None;
            }
            break;
        }
        None
    }

    fn homogeneous_exit_suffix(&self) -> &'static str {
        if self.exit_kinds.len() == 1 {
            match self.exit_kinds.iter().next() {
                Some(Out::Ret) => "after-return-only",
                Some(Out::Err) => "after-error-only",
                _ => "after-panic-only",
            }
        } else {
            "after-mixed-exits"
        }
    }

    async fn run_script(&mut self, s: &Script) {
        let mut rng = Rng::new(s.seed ^ 0x5C16);
        // ---------------- P1: pipelined burst on a fresh connection
        let mut frames = vec![];
        let mut running = 0usize;
        let mut admitted: Vec<(Option<u64>, u64, Out)> = vec![]; // (request id or None for notify, tok, out)
        // frames[..prefix] = everything up to and including the message that takes the last free slot
        let mut prefix: Option<usize> = None;
        let (mut tail_requests, mut tail_overcap, mut tail_pings) = (0u64, 0u64, 0u64);
        for it in &s.burst {
            match *it {
                Item::Ping => {
                    let (id, tok) = (self.new_id(), self.new_tok());
                    self.pending.insert(id, Exp::Ping { tok });
                    frames.push(req_frame(id, false, "/ping", &json!({ "tok": tok })));
                    if prefix.is_some() {
                        tail_pings += 1;
                    }
                }
                Item::Park { out, notify } => {
                    let (id, tok) = (self.new_id(), self.new_tok());
                    let admit = self.cap == 0 || running < self.cap;
                    if prefix.is_some() {
                        tail_overcap += 1;
                        tail_requests += !notify as u64;
                    }
                    if admit {
                        running += 1;
                        self.add_gate(tok);
                        if running == self.cap {
                            prefix = Some(frames.len() + 1);
                        }
                        if notify {
                            self.notify_ids.insert(id);
                            self.st.notify_handlers_parked += 1;
                            admitted.push((None, tok, out));
                        } else {
                            self.pending.insert(id, Exp::Call { tok, out, released: false, may_reject: false });
                            admitted.push((Some(id), tok, out));
                        }
                    } else {
                        self.forbidden.insert(tok, notify);
                        if notify {
                            self.notify_ids.insert(id);
                            self.st.overcap_notifies += 1;
                        } else {
                            self.pending.insert(id, Exp::Reject);
                        }
                    }
                    let body = self.park_body(tok, out);
                    frames.push(req_frame(id, notify, "/park", &body));
                }
            }
        }
        self.st.admitted += admitted.len() as u64;
        self.saturated_now = self.cap > 0 && running == self.cap;
        let toks: Vec<u64> = admitted.iter().map(|a| a.1).collect();
        let base_tag = self.tag.clone();
        let mut flood = false;
        match (s.fill, prefix) {
            (Fill::None, _) | (_, None) => self.send_all(frames).await,
            (fill, Some(at)) => {
                let tail = frames.split_off(at.min(frames.len()));
                self.send_all(frames).await;
                // the socket is not read from here on, until the server had its time with the tail
                if self.await_started_unread(&toks).await {
                    flood = true;
                    self.tag = "unread-pipelined-burst".into();
                    if let Fill::Push(kib) = fill {
                        match self.fill_outbound(kib).await {
                            Ok(true) => self.tag = "outbound-queue-full".into(),
                            Ok(false) => {}
                            Err(e) => {
                                self.inconcl.push(e);
                                return;
                            }
                        }
                    }
                    self.st.flood_scripts += 1;
                    self.st.flood_tail_requests += tail_requests;
                }
                let base = self.sh.hook_saturation.load(Ordering::Relaxed);
                // ONE flush; bounded, because a server that stopped reading could push back on a big tail
                match tokio::time::timeout(Duration::from_secs(10), self.send_all(tail)).await {
                    Ok(()) => {}
                    Err(_) => {
                        self.inconcl.push("writing the pipelined tail did not complete within 10 s".into());
                        return;
                    }
                }
                if flood {
                    self.await_tail_processed(base, tail_overcap).await;
                }
            }
        }
        let before = (self.st.overcap_requests_rejected, self.st.pings_answered);
        let ok = self.await_immediates(&toks, "burst").await;
        if flood {
            self.st.flood_tail_rejected_ec8 += (self.st.overcap_requests_rejected - before.0).min(tail_requests);
            self.st.flood_tail_pings_answered += (self.st.pings_answered - before.1).min(tail_pings);
        }
        self.tag = base_tag;
        if !ok {
            return;
        }
        if self.saturated_now {
            self.st.saturations_reached += 1;
            if admitted.iter().any(|a| a.0.is_none()) {
                self.st.saturations_with_notify_slots += 1;
            }
            let (cur, _) = self.sh.gauge(self.conn);
            if cur != self.cap as u64 {
                self.viol("C16:gauge-mismatch-at-saturation", format!("{} handlers admitted and parked, gauge reads {cur}", self.cap));
                return;
            }
        }
        // ---------------- P2: release in the scripted order, one at a time, confirming each
        let mut queue: Vec<(Option<u64>, u64, Out)> = s.release.iter().filter_map(|&i| admitted.get(i).copied()).collect();
        let mut refills = 0;
        while !queue.is_empty() {
            let (id, tok, out) = queue.remove(0);
            self.release(tok);
            self.saturated_now = false;
            match id {
                Some(id) => {
                    if !self.await_reply(id, &format!("released-{}", out.name())).await {
                        return;
                    }
                }
                None => {
                    let dl = Instant::now() + WINDOW;
                    while !self.exited.contains(&tok) && self.viols.is_empty() && self.pump(dl).await {}
                    if !self.viols.is_empty() {
                        return;
                    }
                    if !self.exited.contains(&tok) {
                        if let Some(why) = self.closed.clone() {
                            self.viol("C16:connection-lost:released-notify", format!("connection ended ({why}) after a notify handler ({}) was let go", out.name()));
                        } else {
                            self.inconcl.push("released notify handler did not exit within the window".into());
                        }
                        return;
                    }
                    self.exit_kinds.insert(out);
                    if s.refill_after_notify && self.cap > 0 {
                        // the slot a notify handler held must come back exactly like a request's
                        let o = Out::pick(&mut rng);
                        match self.admit_with_retries(o, "refill-after-notify-exit").await {
                            Some((rid, rtok)) => {
                                self.st.refills_after_notify_exit += 1;
                                let at = rng.usize_below(queue.len() + 1);
                                queue.insert(at, (Some(rid), rtok, o));
                            }
                            None => {
                                if self.viols.is_empty() {
                                    self.progress_viol(
                                        "C16:slot-not-recovered:after-notify-exit",
                                        format!("cap {}: a notify handler exited ({}) while {} others are parked, yet a new request was still rejected after {} rejections / 12 s", self.cap, out.name(), queue.len(), self.got8.len()),
                                    );
                                }
                                return;
                            }
                        }
                        if queue.len() == self.cap {
                            // all slots taken again: one more request is rejected, an inline call gets through
                            self.saturated_now = true;
                            let (id, tok) = (self.new_id(), self.new_tok());
                            self.forbidden.insert(tok, false);
                            self.pending.insert(id, Exp::Reject);
                            let (pid, ptok) = (self.new_id(), self.new_tok());
                            self.pending.insert(pid, Exp::Ping { tok: ptok });
                            let b = self.park_body(tok, Out::Ret);
                            let before = self.st.overcap_requests_rejected;
                            self.send_all(vec![req_frame(id, false, "/park", &b), req_frame(pid, false, "/ping", &json!({ "tok": ptok }))]).await;
                            if !self.await_immediates(&[], "saturation-after-notify-exit").await {
                                return;
                            }
                            self.st.probes_rejected_after_notify_refill += self.st.overcap_requests_rejected - before;
                        }
                    }
                }
            }
            if rng.chance(1, 3) && !self.ping("between-releases").await {
                return;
            }
            if self.cap > 0 && refills < 2 && queue.len() < self.cap && rng.chance(1, 4) {
                let o = Out::pick(&mut rng);
                match self.admit_with_retries(o, "refill").await {
                    Some((rid, rtok)) => {
                        refills += 1;
                        self.st.refills += 1;
                        let at = rng.usize_below(queue.len() + 1);
                        queue.insert(at, (Some(rid), rtok, o));
                    }
                    None => {
                        if self.viols.is_empty() {
                            self.progress_viol(
                                format!("C16:slot-not-recovered:refill:{}", self.homogeneous_exit_suffix()),
                                format!("cap {}: a handler exited ({}) and {} are parked, yet a new request was still rejected after {} rejections / 12 s", self.cap, out.name(), queue.len(), self.got8.len()),
                            );
                        }
                        return;
                    }
                }
            }
        }
        // ---------------- P3: a pipelined batch of handlers that do not park
        let k = if self.cap == 0 { rng.usize_below(7) } else { rng.usize_below(2 * self.cap + 1) };
        let mut frames = vec![];
        let mut ids = vec![];
        for _ in 0..k {
            let (id, tok, out) = (self.new_id(), self.new_tok(), Out::pick(&mut rng));
            self.pending.insert(id, Exp::Call { tok, out, released: true, may_reject: true });
            let body = self.park_body(tok, out);
            frames.push(req_frame(id, false, "/park", &body));
            ids.push(id);
        }
        self.st.instants += k as u64;
        self.send_all(frames).await;
        for id in ids {
            if !self.await_reply(id, "instant-handler").await {
                return;
            }
            if self.got8.contains(&id) {
                self.st.instants_rejected += 1;
            }
        }
        // ---------------- P4: the whole capacity must come back
        let want = if self.cap == 0 { 4 } else { self.cap };
        let mut parked = vec![];
        for i in 0..want {
            let o = Out::pick(&mut rng);
            match self.admit_with_retries(o, "recovery").await {
                Some((id, tok)) => parked.push((id, tok, o)),
                None => {
                    if self.viols.is_empty() {
                        self.progress_viol(
                            format!("C16:slot-not-recovered:{}", self.homogeneous_exit_suffix()),
                            format!(
                                "cap {}: every earlier handler has exited (kinds {:?}), but only {i} of {want} new parked requests were admitted; the next one was rejected {} times over 12 s",
                                self.cap,
                                self.exit_kinds.iter().map(|o| o.name()).collect::<Vec<_>>(),
                                self.got8.len()
                            ),
                        );
                    }
                    return;
                }
            }
        }
        self.st.recovered_slots += parked.len() as u64;
        if self.cap > 0 {
            self.saturated_now = true;
            self.st.saturations_reached += 1;
            let (cur, _) = self.sh.gauge(self.conn);
            if cur != self.cap as u64 {
                self.viol("C16:gauge-mismatch-at-saturation", format!("recovery: {} handlers parked, gauge reads {cur}", self.cap));
                return;
            }
            // one more: must be rejected again (the cap did not grow), and an inline call still gets through
            let (id, tok) = (self.new_id(), self.new_tok());
            self.forbidden.insert(tok, false);
            self.pending.insert(id, Exp::Reject);
            let (pid, ptok) = (self.new_id(), self.new_tok());
            self.pending.insert(pid, Exp::Ping { tok: ptok });
            let b = self.park_body(tok, Out::Ret);
            let before = self.st.overcap_requests_rejected;
            self.send_all(vec![req_frame(id, false, "/park", &b), req_frame(pid, false, "/ping", &json!({ "tok": ptok }))]).await;
            if !self.await_immediates(&[], "recovery-saturation").await {
                return;
            }
            self.st.recovery_probe_rejected += self.st.overcap_requests_rejected - before;
        }
        rng.shuffle(&mut parked);
        for (id, tok, o) in parked {
            self.release(tok);
            self.saturated_now = false;
            if !self.await_reply(id, &format!("released-{}", o.name())).await {
                return;
            }
        }
        // ---------------- P5: the connection is still alive and nothing unexpected is in flight
        if !self.ping("final").await {
            return;
        }
        let dl = Instant::now() + Duration::from_secs(5);
        while self.started.iter().any(|t| !self.exited.contains(t)) && self.pump(dl).await {}
    }
}

// ------------------------------------------------------------------ one server case

struct CaseResult {
    viols: Vec<(String, String)>,
    inconcl: Vec<String>,
    stats: Vec<Stats>,
    orders: Vec<u64>,
    mw_calls: u64,
    ctx_peer_seen: u64,
    hook_saturation: u64,
    hook_panic: u64,
    hook_other: u64,
    gate_timeouts: u64,
    late_forbidden_starts: u64,
    /// hammer family: (rejections in the hammer phase with the gauge at the cap, ... below the cap,
    /// rejections in the probe phase with the gauge at the cap, ... below the cap)
    hammer_hook: [u64; 4],
}

type RtPool = Arc<Mutex<Vec<tokio::runtime::Runtime>>>;

async fn run_case(case: Case, hb: Arc<Heartbeat>, pool: RtPool) -> CaseResult {
    let sh = Shared::new();
    let router = build_router(&sh, case.route, case.mw);
    let mut res = CaseResult { viols: vec![], inconcl: vec![], stats: vec![], orders: vec![], mw_calls: 0, ctx_peer_seen: 0, hook_saturation: 0, hook_panic: 0, hook_other: 0, gate_timeouts: 0, late_forbidden_starts: 0, hammer_hook: [0; 4] };
    let hs = sh.clone();
    let mut server = WebSocketServer::new(router).on_error(move |e| match e {
        ConnectionError::Saturation { .. } => {
            hs.hook_saturation.fetch_add(1, Ordering::Relaxed);
        }
        ConnectionError::HandlerPanic { .. } => {
            hs.hook_panic.fetch_add(1, Ordering::Relaxed);
        }
        _ => {
            hs.hook_other.fetch_add(1, Ordering::Relaxed);
        }
    });
    if !case.use_default_cap {
        server = server.with_offreader_limit(case.cap);
    }
    if case.outbound > 0 {
        server = server.with_outbound_capacity(case.outbound);
    }
    let ps = sh.clone();
    server = server.on_peer_connect(move |peer| ps.peers.lock().unwrap_or_else(|e| e.into_inner()).push(peer));
    // The server lives in its own small runtime: if a defect makes a parked handler run on the
    // reader task it blocks a worker of *that* runtime only, never the drivers that must open the gates.
    // Runtimes are pooled (thread churn); one that served a failing case is never reused.
    let pooled = pool.lock().unwrap().pop();
    let srv_rt = match pooled {
        Some(r) => r,
        None => match tokio::runtime::Builder::new_multi_thread().worker_threads(2).max_blocking_threads(256).enable_all().build() {
            Ok(r) => r,
            Err(e) => {
                res.inconcl.push(format!("server runtime: {e}"));
                return res;
            }
        },
    };
    let (addr_tx, addr_rx) = tokio::sync::oneshot::channel();
    let srv_task = srv_rt.spawn(async move {
        let listener = match tokio::net::TcpListener::bind("127.0.0.1:0").await {
            Ok(l) => l,
            Err(e) => {
                let _ = addr_tx.send(Err(e.to_string()));
                return;
            }
        };
        let _ = addr_tx.send(listener.local_addr().map_err(|e| e.to_string()));
        let _ = server.serve_listener(listener, "/repe").await;
    });
    let addr = match tokio::time::timeout(Duration::from_secs(10), addr_rx).await {
        Ok(Ok(Ok(a))) => a,
        other => {
            res.inconcl.push(format!("server did not come up: {other:?}"));
            srv_rt.shutdown_background();
            return res;
        }
    };
    let tag = if case.mw > 0 { "behind-middleware" } else { "plain-route" };
    let mut tasks = vec![];
    for script in case.scripts.clone() {
        let (sh, hb) = (sh.clone(), hb.clone());
        let cap = case.cap;
        tasks.push(tokio::spawn(async move {
            let conn = CONN_IDS.fetch_add(1, Ordering::Relaxed);
            let (tx, rx) = unbounded_channel();
            sh.ev.lock().unwrap().insert(conn, tx);
            let connecting = async {
                if matches!(script.fill, Fill::Push(_)) {
                    // a small receive buffer: the server's writer gets stuck after little pushed data
                    let sock = tokio::net::TcpSocket::new_v4()?;
                    let _ = sock.set_recv_buffer_size(16 * 1024);
                    sock.connect(addr).await
                } else {
                    tokio::net::TcpStream::connect(addr).await
                }
            };
            let stream = match connecting.await {
                Ok(s) => s,
                Err(e) => return (vec![], vec![format!("connect failed: {e}")], Stats::default(), 0u64, vec![]),
            };
            let _ = stream.set_nodelay(true);
            // close with RST: thousands of short connections must not pile up in TIME_WAIT
            let _ = stream.set_linger(Some(Duration::ZERO));
            let ws = match tokio_tungstenite::client_async(format!("ws://{addr}/repe"), stream).await {
                Ok((ws, _)) => ws,
                Err(e) => return (vec![], vec![format!("websocket handshake failed: {e}")], Stats::default(), 0, vec![]),
            };
            let mut d = Drv::new(ws, rx, sh.clone(), hb, conn, cap, tag);
            d.run_script(&script).await;
            // let every handler go, whatever happened
            let toks: Vec<u64> = d.gates.keys().copied().collect();
            for t in toks {
                d.drop_gate(t);
            }
            drop(d.ws);
            let (_, max) = sh.gauge(conn);
            d.st.gauge_max = d.st.gauge_max.max(max);
            if cap > 0 && max > cap as u64 && !d.viols.iter().any(|v| v.0 == "C16:gauge-over-cap") {
                d.viols.push(("C16:gauge-over-cap".into(), format!("gauge maximum {max} on one connection, cap {cap}")));
            }
            let forbidden: Vec<(u64, bool)> = d.forbidden.iter().map(|(k, v)| (*k, *v)).collect();
            (d.viols, d.inconcl, d.st, hash_of(&d.order), forbidden)
        }));
    }
    let mut forbidden_all = vec![];
    for t in tasks {
        match tokio::time::timeout(Duration::from_secs(150), t).await {
            Ok(Ok((v, i, st, ord, forb))) => {
                res.viols.extend(v);
                res.inconcl.extend(i);
                res.stats.push(st);
                res.orders.push(ord);
                forbidden_all.extend(forb);
            }
            Ok(Err(e)) => res.inconcl.push(format!("driver task failed: {e}")),
            Err(_) => res.inconcl.push("driver task exceeded 150 s".into()),
        }
    }
    srv_task.abort();
    if res.viols.is_empty() && res.inconcl.is_empty() {
        pool.lock().unwrap().push(srv_rt);
    } else {
        srv_rt.shutdown_background();
    }
    // a handler of a rejected / dropped message that started late would still hold its gate receiver? no:
    // it removes it on start. Anything left in the shared gate map belongs to messages that never ran.
    let _ = forbidden_all;
    res.mw_calls = sh.mw_calls.load(Ordering::Relaxed);
    res.ctx_peer_seen = sh.ctx_peer_seen.load(Ordering::Relaxed);
    res.hook_saturation = sh.hook_saturation.load(Ordering::Relaxed);
    res.hook_panic = sh.hook_panic.load(Ordering::Relaxed);
    res.hook_other = sh.hook_other.load(Ordering::Relaxed);
    res.gate_timeouts = sh.gate_timeouts.load(Ordering::Relaxed);
    res
}

// ------------------------------------------------------------------ stage

pub fn run(args: &Args) -> Report {
    let mut rep = Report::new(
        args,
        "c16-offreader-cap",
        "real WebSocketServer with gauge-counting, gate-parked blocking routes driven by a raw tungstenite client: \
         gauge ≤ cap at every handler entry; the first cap off-reader messages are admitted, later requests get ec 8 with \
         their id and later notifies run nothing, and those replies plus interleaved inline pings are received before any \
         gate is opened; released handlers answer with the scripted class (panic → ec 9, same id) while the others stay \
         parked; after all exits cap new parked requests are admitted within bounded retries and one more is rejected; \
         slots held by parked NOTIFY handlers count and come back the same way; with a saturated cap and a full bounded \
         outbound queue (tiny with_outbound_capacity, unread pipelined flood, queue pre-filled with pushed notifies) every \
         over-cap request and ping of the flood is still answered exactly once; hammer family: after thousands of short \
         off-reader requests whose exits overlap admissions on one connection (every one answered exactly once with its own \
         result or ec 8) the idle connection admits exactly cap parked handlers again and rejects one more. \
         distinct = (cap, route kind, middleware, burst, release order, outbound capacity, fill mode) of an executed connection script",
    );
    let rt = match tokio::runtime::Builder::new_multi_thread().worker_threads(6).max_blocking_threads(2048).enable_all().build() {
        Ok(r) => r,
        Err(e) => {
            rep.inconclusive(format!("tokio runtime: {e}"));
            return rep;
        }
    };
    let mut hammer_cases: Vec<hammer::HammerCase> = vec![];
    let cases: Vec<Case> = match &args.replay {
        Some(p) => match std::fs::read_to_string(p).ok().and_then(|s| serde_json::from_str::<Value>(&s).ok()) {
            Some(v) if v["family"].as_str() == Some("hammer") => match hammer::case_from_json(&v) {
                Some(h) => {
                    hammer_cases.push(h);
                    vec![]
                }
                None => {
                    rep.inconclusive(format!("cannot read hammer replay case {p}"));
                    return rep;
                }
            },
            Some(v) => match case_from_json(&v) {
                Some(c) => vec![c],
                None => {
                    rep.inconclusive(format!("cannot read replay case {p}"));
                    return rep;
                }
            },
            None => {
                rep.inconclusive(format!("cannot read replay case {p}"));
                return rep;
            }
        },
        // `--stage hammer` runs the hammer family alone; `--stage notify-fill` / `--stage flood` run without it
        None => match args.stage.as_str() {
            "hammer" => {
                hammer_cases = hammer::plan(args);
                vec![]
            }
            "notify-fill" | "flood" => plan(args),
            _ => {
                hammer_cases = hammer::plan(args);
                plan(args)
            }
        },
    };
    let hammer_only = cases.is_empty() && !hammer_cases.is_empty();
    let planned = cases.len();
    let planned_exhaustive = cases.iter().filter(|c| c.exhaustive).count();
    let hb = Arc::new(Heartbeat::start());
    let budget = Duration::from_secs(if args.thorough() { 400 } else { 30 });
    quiet_panics(true);
    let width = if args.thorough() { 24 } else { 16 };
    let pool: RtPool = Arc::new(Mutex::new(vec![]));
    // stop launching new cases after this many failing ones (RV_C16_MAX_FAILING: sensitivity experiments only)
    let max_failing: usize = std::env::var("RV_C16_MAX_FAILING").ok().and_then(|v| v.parse().ok()).unwrap_or(8);
    // (h) the hammer groups run first, all at once and with the machine otherwise quiet: what they need is
    // real parallelism between one connection's reader and its blocking-pool threads
    // (n) names family (c16_names.rs): off-reader routes under long non-ASCII names as ordinary / panicking / saturating handlers
    if args.replay.is_none() && !matches!(args.stage.as_str(), "hammer" | "notify-fill" | "flood") {
        let t = Instant::now();
        let hb2 = hb.clone();
        let seed = args.seed;
        match rt.block_on(async move { tokio::time::timeout(Duration::from_secs(120), names::run_names(seed, hb2)).await }) {
            Ok(n) => {
                for (sig, d, replay) in n.viols {
                    rep.violation(sig, format!("{d} [names family]"), replay);
                }
                for i in n.inconcl {
                    rep.inconclusive(i);
                }
                for (k, v) in n.counts {
                    rep.set(k, json!(v));
                }
            }
            Err(_) => rep.inconclusive("names family did not finish inside its 120 s watchdog"),
        }
        rep.set("names_phase_wall_ms", json!(t.elapsed().as_millis() as u64));
    }
    let hammer_planned = hammer_cases.len();
    let hammer_started = Instant::now();
    let hammer_results: Vec<(hammer::HammerCase, CaseResult)> = rt.block_on(async {
        let mut set = tokio::task::JoinSet::new();
        let mut it = hammer_cases.into_iter();
        let mut out = vec![];
        // bounded: a group is hammer budget + probes, every wait inside has its own window
        let dl = tokio::time::Instant::now() + Duration::from_secs(if args.thorough() { 420 } else { 150 });
        loop {
            // eight groups (caps 1, 2, 4, 8 × two server runtime flavours) at a time
            while set.len() < 8 {
                match it.next() {
                    Some(c) => {
                        let hb = hb.clone();
                        set.spawn(async move {
                            let r = hammer::run_hammer_case(c.clone(), hb).await;
                            (c, r)
                        });
                    }
                    None => break,
                }
            }
            match tokio::time::timeout_at(dl, set.join_next()).await {
                Ok(Some(Ok(x))) => out.push(x),
                Ok(Some(Err(_))) => {}
                Ok(None) | Err(_) => break,
            }
        }
        set.abort_all();
        out
    });
    let hammer_wall = hammer_started.elapsed();
    // the case budget below starts after the hammer phase
    let started = Instant::now();
    let results: Vec<(Case, CaseResult)> = rt.block_on(async {
        let mut out = vec![];
        let mut set = tokio::task::JoinSet::new();
        let mut it = cases.into_iter();
        let mut failing = 0;
        loop {
            while set.len() < width && started.elapsed() < budget && failing < max_failing {
                match it.next() {
                    Some(c) => {
                        let hb = hb.clone();
                        let pool = pool.clone();
                        set.spawn(async move {
                            let r = run_case(c.clone(), hb, pool).await;
                            (c, r)
                        });
                    }
                    None => break,
                }
            }
            match set.join_next().await {
                Some(Ok(x)) => {
                    if !x.1.viols.is_empty() {
                        failing += 1;
                    }
                    out.push(x)
                }
                Some(Err(_)) => {}
                None => break,
            }
        }
        out
    });
    for r in std::mem::take(&mut *pool.lock().unwrap()) {
        r.shutdown_background();
    }
    quiet_panics(false);
    rt.shutdown_timeout(Duration::from_secs(3));

    let mut tot = Stats::default();
    let mut orders = HashSet::new();
    let (mut mw_calls, mut ctx_seen, mut hook_sat, mut hook_panic, mut hook_other, mut gate_to) = (0, 0, 0, 0, 0, 0);
    let mut exhaustive_done = 0u64;
    let mut caps_seen: HashSet<usize> = HashSet::new();
    let mut hook_sat_expected = 0u64;
    let mut hook_panic_seen_cases = 0u64;
    let mut families: HashMap<&'static str, u64> = HashMap::new();
    let mut outbound_seen: HashSet<usize> = HashSet::new();
    for (case, r) in &results {
        let clean = r.viols.is_empty() && r.inconcl.is_empty();
        if case.exhaustive && clean {
            exhaustive_done += 1;
        }
        caps_seen.insert(case.cap);
        for s in &case.scripts {
            rep.eval();
            rep.distinct(&(case.cap, case.route, case.mw, &s.burst, &s.release, case.outbound, s.fill, s.refill_after_notify));
        }
        *families.entry(case.family).or_insert(0u64) += 1;
        outbound_seen.insert(case.outbound);
        for st in &r.stats {
            tot.add(st, case.cap != 0);
            hook_sat_expected += st.rejects_seen + st.overcap_notifies;
        }
        for o in &r.orders {
            orders.insert(*o);
        }
        mw_calls += r.mw_calls;
        ctx_seen += r.ctx_peer_seen;
        hook_sat += r.hook_saturation;
        hook_panic += r.hook_panic;
        hook_other += r.hook_other;
        gate_to += r.gate_timeouts;
        if r.hook_panic > 0 {
            hook_panic_seen_cases += 1;
        }
        for (sig, d) in &r.viols {
            rep.violation(sig.clone(), format!("{d} [route {} mw {}]", ROUTES[case.route], case.mw), case_json(case));
        }
        for i in &r.inconcl {
            rep.inconclusive(format!("{i} [cap {} route {}]", case.cap, ROUTES[case.route]));
        }
        if rep.samples.len() < 4 && (rep.samples.is_empty() || case.cap > 3) {
            rep.sample(json!({"case": case_json(case), "frames": r.stats.iter().map(|s| s.frames).sum::<u64>(), "gauge_max": r.stats.iter().map(|s| s.gauge_max).max()}));
        }
    }
    // ---- hammer family
    let mut hammer_hook = [0u64; 4];
    let mut hammer_clean = 0u64;
    let mut hammer_groups: Vec<String> = vec![];
    for (case, r) in &hammer_results {
        rep.eval();
        rep.distinct(&("hammer", case.cap, case.current_thread, case.route, case.mw, &case.rounds));
        caps_seen.insert(case.cap);
        *families.entry("hammer").or_insert(0u64) += 1;
        if r.viols.is_empty() && r.inconcl.is_empty() {
            hammer_clean += 1;
        }
        for st in &r.stats {
            tot.add(st, true);
            hook_sat_expected += st.rejects_seen + st.overcap_notifies;
            hammer_groups.push(format!(
                "cap{}/{}: {} requests in {} ms, {} ec8, probes {}/{}",
                case.cap,
                hammer::flavour(case.current_thread),
                st.hammer_requests,
                st.hammer_ms,
                st.hammer_replies_ec8,
                st.probe_rounds_completed,
                case.rounds.len()
            ));
        }
        for o in &r.orders {
            orders.insert(*o);
        }
        for (a, b) in hammer_hook.iter_mut().zip(r.hammer_hook.iter()) {
            *a += *b;
        }
        mw_calls += r.mw_calls;
        ctx_seen += r.ctx_peer_seen;
        hook_sat += r.hook_saturation;
        hook_panic += r.hook_panic;
        hook_other += r.hook_other;
        gate_to += r.gate_timeouts;
        for (sig, d) in &r.viols {
            rep.violation(sig.clone(), format!("{d} [hammer family, server runtime {}, route {} mw {}]", hammer::flavour(case.current_thread), ROUTES[case.route], case.mw), hammer::case_json(case));
        }
        for i in &r.inconcl {
            rep.inconclusive(format!("{i} [hammer family, cap {} server runtime {} route {}]", case.cap, hammer::flavour(case.current_thread), ROUTES[case.route]));
        }
    }
    if let Some((case, r)) = hammer_results.iter().find(|(c, _)| c.cap == 4) {
        rep.sample(json!({"case": hammer::case_json(case), "frames": r.stats.iter().map(|s| s.frames).sum::<u64>(), "gauge_max": r.stats.iter().map(|s| s.gauge_max).max()}));
    }
    if hammer_planned > 0 {
        hammer_groups.sort();
        rep.set("hammer_groups_planned", json!(hammer_planned));
        rep.set("hammer_groups_executed", json!(hammer_results.len()));
        rep.set("hammer_groups_clean", json!(hammer_clean));
        rep.set("hammer_groups", json!(hammer_groups));
        rep.set("hammer_phase_wall_ms", json!(hammer_wall.as_millis() as u64));
        rep.set("hammer_rounds", json!(tot.hammer_rounds));
        rep.set("hammer_rounds_cut_by_time_budget", json!(tot.hammer_rounds_cut_by_time));
        rep.set("hammer_requests_sent", json!(tot.hammer_requests));
        rep.set("hammer_replies_own_return", json!(tot.hammer_replies_return));
        rep.set("hammer_replies_own_error", json!(tot.hammer_replies_error));
        rep.set("hammer_replies_own_panic_ec9", json!(tot.hammer_replies_panic));
        rep.set("hammer_replies_ec8", json!(tot.hammer_replies_ec8));
        rep.set("hammer_max_requests_in_flight", json!(tot.hammer_max_in_flight));
        rep.set("hammer_rejections_with_cap_handlers_running_at_the_reader", json!(hammer_hook[0]));
        rep.set("hammer_rejections_undecided_fewer_than_cap_running_at_the_reader", json!(hammer_hook[1]));
        rep.set("hammer_idle_points_all_replies_in_gauge_zero", json!(tot.hammer_idle_points));
        rep.set("probe_rounds_completed", json!(tot.probe_rounds_completed));
        rep.set("probe_parked_handlers_admitted", json!(tot.probe_admitted));
        rep.set("probe_rejections_below_cap_retried", json!(tot.probe_rejections_retried));
        rep.set("probe_rejections_with_cap_handlers_running_at_the_reader", json!(hammer_hook[2]));
        rep.set("probe_rejections_with_fewer_than_cap_running_at_the_reader", json!(hammer_hook[3]));
        rep.set("probe_extra_request_rejected", json!(tot.probe_extra_rejected));
        rep.set("probe_released_handlers_answered", json!(tot.probe_released_replies));
        if hammer_results.len() < hammer_planned {
            rep.inconclusive(format!("hammer family: {} of {hammer_planned} groups did not finish inside the watchdog", hammer_planned - hammer_results.len()));
        }
        if rep.violations.is_empty() && (tot.hammer_requests == 0 || tot.probe_rounds_completed == 0) {
            rep.inconclusive("hammer family: too few events (no hammer request sent or no probe completed)");
        }
    }
    let executed = results.len();
    rep.set("cases_planned", json!(planned));
    rep.set("cases_executed", json!(executed));
    rep.set("exhaustive_cases_planned", json!(planned_exhaustive));
    rep.set("exhaustive_cases_clean", json!(exhaustive_done));
    rep.exhaustive = Some(false);
    rep.set("small_scope_exhaustive_caps_1_to_3", json!(exhaustive_done as usize == planned_exhaustive));
    let mut caps: Vec<usize> = caps_seen.into_iter().collect();
    caps.sort();
    rep.set("caps_exercised_0_is_unlimited", json!(caps));
    rep.set("frames_received", json!(tot.frames));
    rep.set("handlers_admitted_in_bursts", json!(tot.admitted));
    rep.set("handler_started_events", json!(tot.started_events));
    rep.set("saturations_reached_gauge_equals_cap", json!(tot.saturations_reached));
    rep.set("over_cap_requests_rejected_before_any_release", json!(tot.overcap_requests_rejected));
    rep.set("over_cap_notifies_dropped", json!(tot.overcap_notifies));
    rep.set("inline_pings_answered_during_saturation", json!(tot.pings_answered_during_saturation));
    rep.set("inline_pings_answered", json!(tot.pings_answered));
    rep.set("panic_replies_ec9", json!(tot.panic_replies));
    rep.set("error_replies", json!(tot.error_replies));
    rep.set("return_replies", json!(tot.return_replies));
    rep.set("refills_admitted_while_others_parked", json!(tot.refills));
    rep.set("instant_handlers", json!(tot.instants));
    rep.set("instant_handlers_rejected_ec8", json!(tot.instants_rejected));
    rep.set("slots_recovered", json!(tot.recovered_slots));
    rep.set("recovery_retries_total", json!(tot.retries));
    rep.set("recovery_retries_max_for_one_slot", json!(tot.max_retries));
    rep.set("recovery_extra_request_rejected", json!(tot.recovery_probe_rejected));
    rep.set("gauge_max_on_capped_connections", json!(tot.gauge_max));
    let mut fam: Vec<(&str, u64)> = families.into_iter().collect();
    fam.sort();
    rep.set("cases_executed_by_family", json!(fam.iter().map(|(k, v)| format!("{k}={v}")).collect::<Vec<_>>()));
    let mut obs: Vec<usize> = outbound_seen.into_iter().collect();
    obs.sort();
    rep.set("outbound_capacities_exercised_0_is_default", json!(obs));
    rep.set("notify_handlers_admitted_and_parked", json!(tot.notify_handlers_parked));
    rep.set("saturations_with_notify_handlers_holding_slots", json!(tot.saturations_with_notify_slots));
    rep.set("slots_recovered_at_once_after_notify_exit", json!(tot.refills_after_notify_exit));
    rep.set("extra_request_rejected_after_notify_exit_refill", json!(tot.probes_rejected_after_notify_refill));
    rep.set("flood_scripts_tail_written_unread_in_one_flush", json!(tot.flood_scripts));
    rep.set("flood_over_cap_requests_sent", json!(tot.flood_tail_requests));
    rep.set("flood_over_cap_requests_answered_ec8", json!(tot.flood_tail_rejected_ec8));
    rep.set("flood_inline_pings_answered", json!(tot.flood_tail_pings_answered));
    rep.set("flood_saturation_hooks_seen_before_first_read", json!(tot.flood_saturations_seen_before_first_read));
    rep.set("flood_tails_fully_processed_before_first_read", json!(tot.flood_tails_fully_processed_before_first_read));
    rep.set("flood_reader_waiting_on_full_queue_before_first_read", json!(tot.flood_reader_stalled_on_full_queue));
    rep.set("push_fills_outbound_queue_full_and_stable", json!(tot.push_fills_reached_full));
    rep.set("push_fills_gave_up", json!(tot.push_fills_gave_up));
    rep.set("pushed_notifies_accepted", json!(tot.pushed_sent));
    rep.set("pushed_notifies_received", json!(tot.pushed_received));
    rep.set("pushed_bytes", json!(tot.pushed_bytes));
    rep.set("pushed_full_results", json!(tot.pushed_full_results));
    rep.set("distinct_observed_event_orders", json!(orders.len()));
    rep.set("middleware_invocations", json!(mw_calls));
    rep.set("ctx_handlers_saw_peer", json!(ctx_seen));
    rep.set("on_error_saturation_events", json!(hook_sat));
    rep.set("on_error_saturation_expected_from_wire", json!(hook_sat_expected));
    rep.set("on_error_handler_panic_events", json!(hook_panic));
    rep.set("cases_with_handler_panic_hook", json!(hook_panic_seen_cases));
    rep.set("on_error_other_events", json!(hook_other));
    rep.set("heartbeat_max_gap_ms", json!(hb.max_gap_ms()));
    if gate_to > 0 {
        rep.inconclusive(format!("{gate_to} handlers timed out on their gate (harness trouble)"));
    }
    if executed < planned {
        rep.set("cases_not_run_budget_or_early_stop", json!(planned - executed));
        if exhaustive_done as usize != planned_exhaustive && rep.violations.is_empty() {
            rep.inconclusive(format!("wall budget hit before the exhaustive part finished ({exhaustive_done}/{planned_exhaustive})"));
        }
    }
    if args.replay.is_none() && !hammer_only && (tot.overcap_requests_rejected == 0 || tot.saturations_reached == 0 || tot.panic_replies == 0) {
        if rep.violations.is_empty() {
            rep.inconclusive("too few events: no saturation, rejection or panic reply was observed");
        }
    }
    rep
}
