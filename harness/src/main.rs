//! rv — runtime-verification harness for repe-rs. One subcommand per property stage.
//! Usage: rv <cNN> --stage <name> --tier quick|thorough --seed N --out <path|-> [--scale f]
#![allow(clippy::all)]
#![allow(dead_code)]

mod common;
mod oracle;

mod c01;
mod c02;
mod c11_13;

use common::*;

fn main() {
    let argv: Vec<String> = std::env::args().collect();
    let args = Args::parse(&argv);
    install_panic_hook();
    let rep = match args.prop.as_str() {
        "selftest" => {
            println!("rv selftest ok");
            return;
        }
        "c01" => c01::run(&args),
        "c02" => c02::run(&args),
        "c11" => c11_13::run(&args, false),
        "c13" => c11_13::run(&args, true),
        other => {
            eprintln!("unknown property subcommand {other:?}");
            std::process::exit(2);
        }
    };
    rep.finish(&args);
    // Exit status: 0 = stage ran (violations are in the result), 3 = inconclusive.
    if !rep.inconclusive.is_empty() && rep.violations.is_empty() {
        std::process::exit(3);
    }
}
