//! rv — runtime-verification harness for repe-rs. One subcommand per property stage.
//! Usage: rv <cNN> --stage <name> --tier quick|thorough --seed N --out <path|-> [--scale f]
#![allow(clippy::all)]
#![allow(dead_code)]

mod common;
mod oracle;

mod c01;
#[cfg(feature = "net")]
mod c01_cli;
mod c02;
mod c11_13;
#[cfg(feature = "net")]
mod c03;
#[cfg(feature = "net")]
mod c04;
#[cfg(feature = "net")]
mod c05;
#[cfg(feature = "net")]
mod c06;
mod c07;
mod c08;
#[cfg(feature = "net")]
mod c09;
#[cfg(feature = "net")]
mod c10;
mod c12;
mod c14;
#[cfg(feature = "net")]
mod c15;
#[cfg(feature = "net")]
mod c16;
#[cfg(feature = "net")]
mod c17;
mod c18;
#[cfg(feature = "net")]
mod c19;

use common::*;

fn main() {
    let argv: Vec<String> = std::env::args().collect();
    let args = Args::parse(&argv);
    install_panic_hook();
    let rep = match args.prop.as_str() {
        "selftest" => {
            println!("rv selftest ok");
            return;
        }
        "c01" => c01::run(&args),
        "c02" => c02::run(&args),
        #[cfg(feature = "net")]
        "c03" => c03::run(&args),
        #[cfg(feature = "net")]
        "c04" => c04::run(&args),
        #[cfg(feature = "net")]
        "c05" => c05::run(&args),
        #[cfg(feature = "net")]
        "c06" => c06::run(&args),
        "c07" => c07::run(&args),
        "c08" => c08::run(&args),
        #[cfg(feature = "net")]
        "c09" => c09::run(&args),
        #[cfg(feature = "net")]
        "c10" => c10::run(&args),
        "c12" => c12::run(&args),
        "c14" => c14::run(&args),
        #[cfg(feature = "net")]
        "c15" => c15::run(&args),
        #[cfg(feature = "net")]
        "c16" => c16::run(&args),
        #[cfg(feature = "net")]
        "c17" => c17::run(&args),
        "c18" => c18::run(&args),
        #[cfg(feature = "net")]
        "c19" => c19::run(&args),
        "c11" => c11_13::run(&args, false),
        "c13" => c11_13::run(&args, true),
        other => {
            eprintln!("unknown property subcommand {other:?}");
            std::process::exit(2);
        }
    };
    rep.finish(&args);
    // Exit status: 0 = stage ran (violations are in the result), 3 = inconclusive.
    if !rep.inconclusive.is_empty() && rep.violations.is_empty() {
        std::process::exit(3);
    }
}
