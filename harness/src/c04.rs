//! C04 — multiplexed calls each receive their own response, whatever the order.
//!
//! A scripted FAKE server (raw `TcpListener` for `repe::Client` / `repe::AsyncClient`,
//! `tokio_tungstenite::accept_async` for `repe::WebSocketClient`; frames parsed and built with
//! `oracle.rs`, never with the library) collects the requests that N callers issue concurrently
//! from clones of ONE client, then answers in a scripted order: every permutation for N = 6,
//! random permutations up to N = 64, with unknown-id frames, duplicated responses and (WebSocket
//! only, subscriber attached) notify frames that reuse an in-flight id. Every request carries a
//! unique token; every response body carries `{id, tok, k}` so a returned value tells whose
//! response it was. `batch_json` is driven the same way. The verif-hooks probes are used to (a)
//! inject seeded small delays at register / write / receive / deliver and (b) hash the order of the
//! probe events of each scenario (distinct interleavings observed are reported as evidence).
//!
//! Two further families run first (they are short):
//! * `bigbatch`: `batch_json` with MORE requests than the blocking client's worker pool (64): 65, 66, 70, 100, 128,
//!   129, 200, 257 and random sizes up to 300, on all three clients. For these the fake server is arrival-driven
//!   (`serve_arrival`: answer what has arrived, shuffled inside small windows, never hold answers back while
//!   waiting for requests), so it cannot deadlock against a bounded pool; async/WebSocket are also served collect-all.
//! * `forward`: caller-chosen ids through `AsyncClient::forward_message*` (only that client has the API): forwards
//!   reusing the id of an in-flight call / in-flight forward (must be refused, write nothing, leave the in-flight
//!   call's response alone), with never-used ids, id 0, and ids of completed calls (must work) (`run_fwd`, `judge_fwd`).
//!
//! * `reuse-window` (c04_window.rs): the AsyncClient reader is parked with a probe gate between "pending entry taken
//!   out of the map" and "response handed to the caller"; a second `forward_message*` registers the SAME caller-chosen
//!   id in that window. Both must return their own tokens, bystanders too; control: sequential reuse.
//! * `no-subscriber` (c04_nosub.rs): the WebSocket client has NO live notify subscriber (never subscribed,
//!   unsubscribed, receiver dropped) while pushes with in-flight ids, id 0 and unknown ids arrive before the real
//!   responses of several in-flight calls; the same scripts for the TCP clients (no subscriber API).
//! * `unmatched-run` (c04_runs.rs): LONG runs (16, 17, 40, 200, 1000 in a row) of frames that match no pending call
//!   (future / past / huge ids, byte-identical duplicates of delivered responses, notify frames, mixed) before, between
//!   and after the responses of 1..8 calls in flight, calls and batch (`batch_json` and `batch_json_with_timeout`), all
//!   three clients, followed by further calls on the same connection. The fake server never closes and sends only
//!   well-formed frames, so a call that fails is the client's doing.
//! * `batch-connection-loss` (c04_cut.rs): the fake server answers a non-prefix subset of a batch in any order and then
//!   closes (FIN, RST, WebSocket close frame): slots answered before the close hold their own token, the others an error.
//! * `trickle` (c04_trickle.rs): the answers arrive SPREAD OVER TIME. Every response frame is written in pieces (cut inside
//!   the header, at the header/query/body boundaries, inside query and body) with pauses of a few ms up to 1.4 s between the
//!   pieces (WebSocket: continuation fragments with the pauses between them, plus TCP-level cuts), several calls in flight,
//!   permuted order, and response bodies that hold, right after a cut point, the byte image of a response frame for ANOTHER
//!   in-flight id. Many connections, each with its own fake server thread, run in parallel. Every call returns exactly its own
//!   response; none fails while the peer never broke the connection.
//! * `hostile-header` (c04_hostile.rs): well-framed frames (magic, consistent lengths) with unusual `version`, `reserved`, format
//!   codes and `ec` among the genuine answers, the unknown-id frames, the duplicates and the pushes; the variants used are those
//!   the library's public decoders accept (run-time probe). Such a frame concerns the call it is addressed to, or nobody: every
//!   call whose own answer was ordinary returns exactly that answer.
//! * `long-history` (c04_history.rs): one connection per client through calls that timed out / were cancelled / failed locally
//!   (responses never, much later, twice), then 330 ordinary calls, 65 000 id-drawing notifies, 270 more ordinary calls across
//!   2^16: every answered call returns its own response; a lost one is proven by the reader's probe events, not by time.
//!
//! The verdict is computed offline over the recorded history of a scenario (`judge`).

use crate::common::*;

#[cfg(not(feature = "net"))]
pub fn run(args: &Args) -> Report {
    let mut rep = Report::new(args, "c04-multiplex", "needs sockets (feature net)");
    rep.inconclusive("c04 needs the `net` feature (sockets, websocket)");
    rep
}

#[cfg(feature = "net")]
#[path = "c04_ids.rs"]
mod ids;

#[cfg(feature = "net")]
pub fn run(args: &Args) -> Report {
    if args.stage == "ids" {
        return ids::run(args);
    }
    imp::run(args)
}

#[cfg(feature = "net")]
mod imp {
    use crate::common::*;
    use crate::oracle::{self, SpecHeader};
    use futures_util::{SinkExt, StreamExt};
    use repe::{AsyncClient, Client, RepeError, WebSocketClient};
    use serde_json::{Value, json};
    use std::collections::{HashMap, HashSet};
    use std::io::{Read, Write};
    use std::os::fd::AsRawFd;
    use std::sync::atomic::{AtomicBool, AtomicU64, Ordering};
    use std::sync::{Arc, Condvar, Mutex, mpsc};
    use std::time::{Duration, Instant};
    use tokio::runtime::Runtime;
    use tokio_tungstenite::WebSocketStream;
    use tokio_tungstenite::tungstenite::Message as WsMsg;

    /// timeout handed to the `*_with_timeout` APIs: longer than the harness window, so a call
    /// that is still waiting when the window closes is ended by the harness closing the socket
    const API_TIMEOUT: Duration = Duration::from_secs(30);
    /// generous bounded window for all calls of a scenario to return
    const CALL_WINDOW: Duration = Duration::from_secs(12);
    /// window for requests to reach the fake server
    const REQ_WINDOW: Duration = Duration::from_secs(12);
    const SENT_BASE: u64 = 0x7000_0000_0000_0000;
    const MAX_N: usize = 64;

    // ------------------------------------------------------------------ probe state

    static LOG: Mutex<Vec<(u8, u64)>> = Mutex::new(Vec::new());
    static SALT: AtomicU64 = AtomicU64::new(0);
    static DELAYS: AtomicBool = AtomicBool::new(false);
    static SENTINEL_SEEN: AtomicU64 = AtomicU64::new(0);
    static DELAYS_APPLIED: AtomicU64 = AtomicU64::new(0);
    static PROBE_HITS: [AtomicU64; 8] = [const { AtomicU64::new(0) }; 8];
    /// `long-history` family: one event log per client kind (blocking, async, ws) while that kind's flag is set, so that
    /// three connections whose ids all start at 1 can run in parallel; nothing goes to `LOG` then
    static KLOG: [Mutex<Vec<(u8, u64)>>; 3] = [const { Mutex::new(Vec::new()) }; 3];
    static KLOG_REC: [AtomicBool; 3] = [const { AtomicBool::new(false) }; 3];
    /// events of that client kind are not logged at all (tens of thousands of notify requests that only draw ids)
    static KLOG_MUTE: [AtomicBool; 3] = [const { AtomicBool::new(false) }; 3];

    const P_REGISTERED: u8 = 1;
    const P_WRITE_LOCKED: u8 = 2;
    const P_WRITTEN: u8 = 3;
    const P_RECEIVED: u8 = 4;
    const P_BEFORE_DELIVER: u8 = 5;
    const P_TIMEOUT_REMOVE: u8 = 6;
    const P_NAMES: [&str; 8] = ["", "registered", "write.locked", "written", "reader.received", "reader.before_deliver", "timeout.before_remove", ""];

    fn mix(mut z: u64) -> u64 {
        z = (z ^ (z >> 30)).wrapping_mul(0xBF58_476D_1CE4_E5B9);
        z = (z ^ (z >> 27)).wrapping_mul(0x94D0_49BB_1331_11EB);
        z ^ (z >> 31)
    }

    fn probe(point: &'static str, id: u64) {
        let Some((_, suffix)) = point.split_once('.') else { return };
        let code = match suffix {
            "registered" => P_REGISTERED,
            "write.locked" => P_WRITE_LOCKED,
            "written" => P_WRITTEN,
            "reader.received" => P_RECEIVED,
            "reader.before_deliver" => P_BEFORE_DELIVER,
            "timeout.before_remove" => P_TIMEOUT_REMOVE,
            _ => return,
        };
        if !(point.starts_with("client.") || point.starts_with("async_client.") || point.starts_with("ws_client.")) {
            return;
        }
        PROBE_HITS[code as usize].fetch_add(1, Ordering::Relaxed);
        let ki = if point.starts_with("client.") { 0 } else if point.starts_with("async_client.") { 1 } else { 2 };
        if KLOG_MUTE[ki].load(Ordering::Relaxed) {
            return;
        }
        if KLOG_REC[ki].load(Ordering::Relaxed) {
            KLOG[ki].lock().unwrap_or_else(|e| e.into_inner()).push((code, id));
            return;
        }
        LOG.lock().unwrap_or_else(|e| e.into_inner()).push((code, id));
        if GATE_ARMED.load(Ordering::Acquire) {
            gate_pass(code, id);
        }
        if id >= SENT_BASE {
            if code == P_RECEIVED {
                SENTINEL_SEEN.store(id, Ordering::SeqCst);
            }
            return;
        }
        if DELAYS.load(Ordering::Relaxed) {
            // seeded: a function of (scenario salt, point, id) only
            let h = mix(SALT.load(Ordering::Relaxed) ^ (code as u64).wrapping_mul(0x9E37_79B9_7F4A_7C15) ^ id.wrapping_mul(0xD6E8_FEB8_6659_FD93));
            match h % 10 {
                0 => {
                    DELAYS_APPLIED.fetch_add(1, Ordering::Relaxed);
                    std::thread::sleep(Duration::from_micros(20 + (h >> 8) % 280));
                }
                1 | 2 => {
                    DELAYS_APPLIED.fetch_add(1, Ordering::Relaxed);
                    let until = Instant::now() + Duration::from_micros(2 + (h >> 8) % 40);
                    while Instant::now() < until {
                        std::hint::spin_loop();
                    }
                }
                3 => std::thread::yield_now(),
                _ => {}
            }
        }
    }

    // ------------------------------------------------------------------ probe gate (one at a time)
    //
    // Forces an order: the thread that reaches the armed (point, id) parks inside the probe callback until the
    // harness releases it (bounded by GATE_MAX, so nothing can hang). Used by the `reuse-window` family to hold
    // the AsyncClient reader between "entry taken out of the pending map" and "response handed to the caller".

    const GATE_MAX: Duration = Duration::from_secs(10);

    struct GateSt {
        armed: Option<(u8, u64)>,
        parked: bool,
        released: bool,
        /// incremented by every arming: a thread still parked for an earlier arming leaves
        generation: u64,
        parks: u64,
        timeouts: u64,
    }
    static GATE_ARMED: AtomicBool = AtomicBool::new(false);
    static GATE: Mutex<GateSt> = Mutex::new(GateSt { armed: None, parked: false, released: false, generation: 0, parks: 0, timeouts: 0 });
    static GATE_CV: Condvar = Condvar::new();

    fn gate() -> std::sync::MutexGuard<'static, GateSt> {
        GATE.lock().unwrap_or_else(|e| e.into_inner())
    }

    fn gate_pass(code: u8, id: u64) {
        let mut g = gate();
        if g.armed != Some((code, id)) || g.parked {
            return;
        }
        g.parked = true;
        g.parks += 1;
        let my_gen = g.generation;
        GATE_CV.notify_all();
        let deadline = Instant::now() + GATE_MAX;
        while !g.released && g.generation == my_gen {
            let now = Instant::now();
            if now >= deadline {
                g.timeouts += 1;
                break;
            }
            g = GATE_CV.wait_timeout(g, deadline - now).unwrap_or_else(|e| e.into_inner()).0;
        }
        // one passage per arming
        if g.generation == my_gen {
            g.armed = None;
            GATE_ARMED.store(false, Ordering::Release);
        }
        GATE_CV.notify_all();
    }

    fn gate_arm(code: u8, id: u64) {
        let mut g = gate();
        g.generation += 1;
        g.armed = Some((code, id));
        g.parked = false;
        g.released = false;
        GATE_ARMED.store(true, Ordering::Release);
        GATE_CV.notify_all();
    }

    /// true: a thread is parked at the armed point
    fn gate_wait_parked(dur: Duration) -> bool {
        let deadline = Instant::now() + dur;
        let mut g = gate();
        loop {
            if g.parked && g.armed.is_some() {
                return true;
            }
            let now = Instant::now();
            if now >= deadline || g.armed.is_none() {
                return false;
            }
            g = GATE_CV.wait_timeout(g, deadline - now).unwrap_or_else(|e| e.into_inner()).0;
        }
    }

    /// Release whoever is parked and disarm (a thread that has not arrived yet will pass freely).
    fn gate_release() {
        let mut g = gate();
        g.released = true;
        if !g.parked {
            g.armed = None;
            GATE_ARMED.store(false, Ordering::Release);
        }
        GATE_CV.notify_all();
    }

    fn gate_stats() -> (u64, u64) {
        let g = gate();
        (g.parks, g.timeouts)
    }

    // ------------------------------------------------------------------ scenario description

    #[derive(Clone, Copy, PartialEq, Eq, Hash, Debug)]
    pub enum Kind {
        B,
        A,
        W,
    }
    impl Kind {
        fn name(self) -> &'static str {
            match self {
                Kind::B => "blocking",
                Kind::A => "async",
                Kind::W => "ws",
            }
        }
    }

    #[derive(Clone, Copy, PartialEq, Eq, Hash, Debug)]
    enum Mode {
        Calls,
        Batch,
    }
    impl Mode {
        fn name(self) -> &'static str {
            match self {
                Mode::Calls => "calls",
                Mode::Batch => "batch",
            }
        }
    }

    #[derive(Clone, Copy, PartialEq, Eq, Hash, Debug)]
    enum Api {
        /// call_json (no timeout)
        Json,
        /// call_json_with_timeout
        JsonT,
        /// call_with_formats_and_timeout, returns the whole Message (header id / notify checked)
        Msg,
        /// notify_json: consumes a request id, expects no response
        Notify,
    }

    #[derive(Clone, Copy, PartialEq, Eq, Hash, Debug)]
    enum Unk {
        Zero,
        Huge(u32),
        /// an id this connection will issue soon (max id seen + 1 + k): unknown *now*
        Future(u8),
        /// an id of an already completed call on this connection
        Past,
        /// the id of `slot`'s request plus 2^32: equal to an in-flight id in the low 32 bits
        Alias32(usize),
    }

    #[derive(Clone, Copy, PartialEq, Eq, Hash, Debug)]
    enum Step {
        Resp(usize),
        Dup(usize),
        Unknown(Unk),
        /// notify frame (notify=1) carrying the id of `slot`'s request (in flight when placed before
        /// Resp(slot)) or, with None, an id nobody issued. WebSocket client only.
        Notify(Option<usize>),
        /// notify frame (notify=1) with id 0 (no call ever has it: the counters start at 1). Only scripted by the
        /// no-subscriber family.
        NotifyZero,
    }

    /// What the notify-subscriber side of the connection looks like while the scenario runs.
    #[derive(Clone, Copy, PartialEq, Eq, Hash, Debug)]
    enum Sub {
        /// the families that existed first: WebSocket client with a live subscriber; no notify frames for TCP clients
        Default,
        /// WebSocket client on which `subscribe_notifies` was never called
        Never,
        /// subscribed, then `unsubscribe_notifies()`; the old receiver is kept alive (`true`) or dropped
        Unsubscribed(bool),
        /// subscribed, then the receiver was dropped (the slot still holds the stale sender until a push finds out)
        ReceiverDropped,
        /// blocking `Client` / `AsyncClient`: there is no subscriber API at all
        NoApi,
    }
    impl Sub {
        fn state(self) -> &'static str {
            match self {
                Sub::Default => "subscribed",
                Sub::Never => "never-subscribed",
                Sub::Unsubscribed(_) => "unsubscribed",
                Sub::ReceiverDropped => "receiver-dropped",
                Sub::NoApi => "no-subscriber-api",
            }
        }
        /// connections are not shared between these classes
        fn conn_class(self) -> u8 {
            match self {
                Sub::Default | Sub::NoApi => 0,
                Sub::Never => 1,
                Sub::Unsubscribed(_) | Sub::ReceiverDropped => 2,
            }
        }
    }

    #[derive(Clone, Debug)]
    struct Scn {
        family: &'static str,
        index: u64,
        kind: Kind,
        mode: Mode,
        n: usize,
        /// false: collect all N requests, then reply; true: reply to a step as soon as its request is there
        eager: bool,
        /// Some(w): no pre-computed script; the fake server answers the requests AS THEY ARRIVE, in a shuffled
        /// order within windows of at most w arrived requests, and never waits for a request while it holds
        /// unanswered ones (so it cannot deadlock against a bounded worker pool). `steps` is empty then.
        arrival: Option<usize>,
        steps: Vec<Step>,
        apis: Vec<Api>,
        /// how reply frames are put on the wire: 0 one write per frame, 1 all in one write, 2 seeded splits
        wmode: u8,
        salt: u64,
        delays: bool,
        sub: Sub,
    }

    impl Scn {
        fn identity(&self) -> (Kind, Mode, usize, bool, Option<usize>, &[Step], &[Api], u8, Sub) {
            (self.kind, self.mode, self.n, self.eager, self.arrival, &self.steps, &self.apis, self.wmode, self.sub)
        }
        fn to_json(&self, seed: u64) -> Value {
            json!({
                "seed": seed, "family": self.family, "index": self.index, "client": self.kind.name(), "mode": self.mode.name(),
                "n": self.n, "eager": self.eager, "subscriber": self.sub.state(), "arrival_window": self.arrival, "wmode": self.wmode, "delays": self.delays, "salt": self.salt,
                "steps": self.steps.iter().take(80).map(|s| format!("{s:?}")).collect::<Vec<_>>(),
                "apis": self.apis.iter().take(70).map(|s| format!("{s:?}")).collect::<Vec<_>>(),
            })
        }
    }

    // ------------------------------------------------------------------ results of calls

    #[derive(Clone, Debug)]
    struct ErrInfo {
        class: String,
        text: String,
        mismatch: Option<(u64, u64)>,
    }

    fn err_info(e: &RepeError) -> ErrInfo {
        let (class, mismatch) = match e {
            RepeError::ResponseIdMismatch { expected, got } => ("ResponseIdMismatch".to_string(), Some((*expected, *got))),
            RepeError::Io(io) => (format!("Io.{:?}", io.kind()), None),
            RepeError::ServerError { code, .. } => (format!("ServerError.{code:?}"), None),
            other => {
                let d = format!("{other:?}");
                (d.split(|c: char| !c.is_alphanumeric()).next().unwrap_or("Error").to_string(), None)
            }
        };
        ErrInfo { class, text: trunc(&e.to_string(), 200), mismatch }
    }

    #[derive(Clone, Debug)]
    enum Res {
        /// a returned response: header (id, notify, ec) when the API exposes it, and the JSON body
        Body { hdr: Option<(u64, u8, u32)>, body: Value },
        Err(ErrInfo),
        NotifyOk,
    }

    #[derive(Clone, Debug)]
    struct Out {
        res: Res,
        /// arrived only after the harness window closed and the socket was shut
        late: bool,
    }

    enum ResMsg {
        One(u64, usize, Res),
        Batch(u64, Vec<Res>),
    }

    fn val_res(r: Result<Value, RepeError>) -> Res {
        match r {
            Ok(v) => Res::Body { hdr: None, body: v },
            Err(e) => Res::Err(err_info(&e)),
        }
    }
    fn msg_res(r: Result<repe::Message, RepeError>) -> Res {
        match r {
            Ok(m) => Res::Body {
                hdr: Some((m.header.id, m.header.notify, m.header.ec)),
                body: serde_json::from_slice(&m.body).unwrap_or_else(|_| json!({"unparsed_body_hex": hex_trunc(&m.body, 64)})),
            },
            Err(e) => Res::Err(err_info(&e)),
        }
    }
    fn unit_res(r: Result<(), RepeError>) -> Res {
        match r {
            Ok(()) => Res::NotifyOk,
            Err(e) => Res::Err(err_info(&e)),
        }
    }
    fn panic_res(p: String) -> Res {
        Res::Err(ErrInfo { class: format!("panic.{}", panic_site(&p)), text: trunc(&p, 200), mismatch: None })
    }

    fn pre_delay(us: u32) {
        if us > 0 {
            let until = Instant::now() + Duration::from_micros(us as u64);
            while Instant::now() < until {
                std::hint::spin_loop();
            }
        }
    }

    // ------------------------------------------------------------------ blocking worker pool

    enum Job {
        Call { scn: u64, cli: Client, slot: usize, api: Api, path: String, body: Value, pre_us: u32 },
        /// `timeout`: Some -> `batch_json_with_timeout`, None -> `batch_json`
        Batch { scn: u64, cli: Client, reqs: Vec<(String, Value)>, timeout: Option<Duration> },
    }

    struct Pool {
        txs: Vec<mpsc::Sender<Job>>,
        res_tx: mpsc::Sender<ResMsg>,
        res_rx: mpsc::Receiver<ResMsg>,
    }

    impl Pool {
        fn new() -> Pool {
            let (res_tx, res_rx) = mpsc::channel::<ResMsg>();
            let mut txs = vec![];
            for w in 0..=MAX_N {
                let (tx, rx) = mpsc::channel::<Job>();
                let out = res_tx.clone();
                std::thread::Builder::new()
                    .name(format!("c04-caller-{w}"))
                    .spawn(move || {
                        while let Ok(job) = rx.recv() {
                            match job {
                                Job::Call { scn, cli, slot, api, path, body, pre_us } => {
                                    pre_delay(pre_us);
                                    let r = catching(|| match api {
                                        Api::Json => val_res(cli.call_json(&path, &body)),
                                        Api::JsonT => val_res(cli.call_json_with_timeout(&path, &body, API_TIMEOUT)),
                                        Api::Msg => {
                                            let bytes = serde_json::to_vec(&body).unwrap();
                                            msg_res(cli.call_with_formats_and_timeout(&path, 1, Some(&bytes), 2, API_TIMEOUT))
                                        }
                                        Api::Notify => unit_res(cli.notify_json(&path, &body)),
                                    })
                                    .unwrap_or_else(panic_res);
                                    drop(cli);
                                    let _ = out.send(ResMsg::One(scn, slot, r));
                                }
                                Job::Batch { scn, cli, reqs, timeout } => {
                                    let r = catching(|| match timeout {
                                        Some(t) => cli.batch_json_with_timeout(reqs, t),
                                        None => cli.batch_json(reqs),
                                    }
                                    .into_iter()
                                    .map(val_res)
                                    .collect::<Vec<_>>())
                                        .unwrap_or_else(|p| vec![panic_res(p)]);
                                    drop(cli);
                                    let _ = out.send(ResMsg::Batch(scn, r));
                                }
                            }
                        }
                    })
                    .expect("spawn caller thread");
                txs.push(tx);
            }
            Pool { txs, res_tx, res_rx }
        }
    }

    // ------------------------------------------------------------------ fake server side of a connection

    enum Srv {
        Tcp { s: std::net::TcpStream, buf: Vec<u8> },
        Ws { ws: Box<WebSocketStream<tokio::net::TcpStream>> },
        Closed,
    }

    fn quickack(fd: i32) {
        let one: libc::c_int = 1;
        unsafe {
            libc::setsockopt(fd, libc::IPPROTO_TCP, libc::TCP_QUICKACK, &one as *const _ as *const libc::c_void, std::mem::size_of::<libc::c_int>() as u32);
        }
    }

    impl Srv {
        /// Next request frame from the client, parsed by the independent codec.
        fn recv(&mut self, rt: &Runtime, deadline: Instant) -> Result<Option<oracle::Frame>, String> {
            match self {
                Srv::Closed => Err("server side already closed".into()),
                Srv::Tcp { s, buf } => loop {
                    if buf.len() >= oracle::HDR {
                        let h = SpecHeader::decode(buf);
                        if !h.consistent() {
                            return Err(format!("request stream is not a REPE frame at a frame boundary: {h:?}"));
                        }
                        if let Some((h, ql, bl)) = oracle::valid_parse(buf, false) {
                            let total = oracle::HDR + ql + bl;
                            let f = oracle::Frame { header: h, query: buf[oracle::HDR..oracle::HDR + ql].to_vec(), body: buf[oracle::HDR + ql..total].to_vec(), at: 0 };
                            buf.drain(..total);
                            return Ok(Some(f));
                        }
                    }
                    let mut tmp = [0u8; 16384];
                    match s.read(&mut tmp) {
                        Ok(0) => return Err("client closed the connection".into()),
                        Ok(k) => buf.extend_from_slice(&tmp[..k]),
                        Err(e) if matches!(e.kind(), std::io::ErrorKind::WouldBlock | std::io::ErrorKind::TimedOut | std::io::ErrorKind::Interrupted) => {
                            if Instant::now() >= deadline {
                                return Ok(None);
                            }
                        }
                        Err(e) => return Err(format!("server read: {e}")),
                    }
                },
                Srv::Ws { ws } => loop {
                    let now = Instant::now();
                    if now >= deadline {
                        return Ok(None);
                    }
                    quickack(ws.get_ref().as_raw_fd());
                    let left = deadline - now;
                    let m = rt.block_on(async { tokio::time::timeout(left, ws.next()).await });
                    match m {
                        Err(_) => return Ok(None),
                        Ok(None) => return Err("client closed the websocket".into()),
                        Ok(Some(Err(e))) => return Err(format!("server ws read: {e}")),
                        Ok(Some(Ok(WsMsg::Binary(b)))) => {
                            return match oracle::valid_parse(&b, true) {
                                Some((h, ql, bl)) => Ok(Some(oracle::Frame { header: h, query: b[oracle::HDR..oracle::HDR + ql].to_vec(), body: b[oracle::HDR + ql..oracle::HDR + ql + bl].to_vec(), at: 0 })),
                                None => Err("websocket binary message is not exactly one REPE frame".into()),
                            };
                        }
                        Ok(Some(Ok(WsMsg::Ping(_) | WsMsg::Pong(_)))) => continue,
                        Ok(Some(Ok(other))) => return Err(format!("unexpected websocket message from client: {other:?}")),
                    }
                },
            }
        }

        /// Put reply frames on the wire.
        fn send(&mut self, rt: &Runtime, frames: &mut Vec<Vec<u8>>, wmode: u8, rng: &mut Rng) -> Result<(), String> {
            if frames.is_empty() {
                return Ok(());
            }
            let r = match self {
                Srv::Closed => Err("server side already closed".into()),
                Srv::Tcp { s, .. } => {
                    let mut res = Ok(());
                    match wmode {
                        0 => {
                            for f in frames.iter() {
                                if let Err(e) = s.write_all(f) {
                                    res = Err(format!("server write: {e}"));
                                    break;
                                }
                            }
                        }
                        1 => {
                            let all: Vec<u8> = frames.concat();
                            res = s.write_all(&all).map_err(|e| format!("server write: {e}"));
                        }
                        _ => {
                            let all: Vec<u8> = frames.concat();
                            let mut at = 0;
                            while at < all.len() {
                                let k = (1 + rng.usize_below(180)).min(all.len() - at);
                                if let Err(e) = s.write_all(&all[at..at + k]) {
                                    res = Err(format!("server write: {e}"));
                                    break;
                                }
                                at += k;
                            }
                        }
                    }
                    res
                }
                Srv::Ws { ws } => rt.block_on(async {
                    if wmode == 1 {
                        for f in frames.iter() {
                            ws.feed(WsMsg::Binary(f.clone())).await.map_err(|e| format!("server ws write: {e}"))?;
                        }
                        ws.flush().await.map_err(|e| format!("server ws flush: {e}"))
                    } else {
                        for f in frames.iter() {
                            ws.send(WsMsg::Binary(f.clone())).await.map_err(|e| format!("server ws write: {e}"))?;
                        }
                        Ok(())
                    }
                }),
            };
            frames.clear();
            r
        }

        fn close(&mut self, rt: &Runtime) {
            let old = std::mem::replace(self, Srv::Closed);
            match old {
                Srv::Tcp { s, .. } => {
                    let _ = s.shutdown(std::net::Shutdown::Both);
                }
                Srv::Ws { ws } => {
                    let _g = rt.enter();
                    drop(ws);
                }
                Srv::Closed => {}
            }
        }
    }

    enum Cli {
        B(Client),
        A(AsyncClient),
        W(WebSocketClient),
    }

    struct Conn {
        kind: Kind,
        cli: Cli,
        srv: Srv,
        sub: Option<tokio::sync::mpsc::UnboundedReceiver<repe::Message>>,
        ids_seen: HashSet<u64>,
        max_id: u64,
        past_ids: Vec<u64>,
        scenarios: u64,
        requests: u64,
    }

    static BIND_FALLBACKS: AtomicU64 = AtomicU64::new(0);
    static CONNECT_RETRIES: AtomicU64 = AtomicU64::new(0);

    /// 127.0.0.1:0 as a rule. When other jobs on the machine have every ephemeral port of 127.0.0.1 parked in
    /// TIME_WAIT (bind(0) then fails with EADDRINUSE) fall back to port 0 on another loopback address.
    fn bind_loopback() -> Result<std::net::TcpListener, String> {
        let mut last = String::new();
        for attempt in 0..12u64 {
            if attempt == 0 && std::env::var_os("C04_FORCE_BIND_FALLBACK").is_some() {
                continue; // harness self-test of the fallback path
            }
            let host = if attempt == 0 { 1 } else { 2 + mix(attempt ^ (std::process::id() as u64) << 8 ^ BIND_FALLBACKS.load(Ordering::Relaxed)) % 250 };
            match std::net::TcpListener::bind(format!("127.0.0.{host}:0")) {
                Ok(l) => {
                    if attempt > 0 {
                        BIND_FALLBACKS.fetch_add(1, Ordering::Relaxed);
                    }
                    return Ok(l);
                }
                Err(e) => last = format!("bind 127.0.0.{host}:0: {e}"),
            }
        }
        Err(last)
    }

    fn connect_retry(kind: Kind, rt: &Runtime) -> Result<Conn, String> {
        connect_retry_opt(kind, rt, true)
    }

    /// `subscribe`: attach a notify subscriber right away (WebSocket client only)
    fn connect_retry_opt(kind: Kind, rt: &Runtime, subscribe: bool) -> Result<Conn, String> {
        let mut last = String::new();
        for attempt in 0..40 {
            match connect(kind, rt, subscribe) {
                Ok(c) => return Ok(c),
                Err(e) => last = e,
            }
            CONNECT_RETRIES.fetch_add(1, Ordering::Relaxed);
            std::thread::sleep(Duration::from_millis(100 + 20 * attempt));
        }
        Err(last)
    }

    fn connect(kind: Kind, rt: &Runtime, subscribe: bool) -> Result<Conn, String> {
        let (cli, srv, sub) = match kind {
            Kind::B | Kind::A => {
                let l = bind_loopback()?;
                let addr = l.local_addr().map_err(|e| e.to_string())?;
                let cli = if kind == Kind::B {
                    Cli::B(Client::connect(addr).map_err(|e| format!("Client::connect: {e}"))?)
                } else {
                    Cli::A(rt.block_on(AsyncClient::connect(addr)).map_err(|e| format!("AsyncClient::connect: {e}"))?)
                };
                let (s, _) = l.accept().map_err(|e| format!("accept: {e}"))?;
                s.set_nodelay(true).ok();
                s.set_read_timeout(Some(Duration::from_millis(25))).ok();
                s.set_write_timeout(Some(Duration::from_secs(10))).ok();
                (cli, Srv::Tcp { s, buf: Vec::new() }, None)
            }
            Kind::W => {
                let (ws, cli) = rt.block_on(async {
                    let l = bind_loopback()?;
                    l.set_nonblocking(true).map_err(|e| e.to_string())?;
                    let l = tokio::net::TcpListener::from_std(l).map_err(|e| format!("listener: {e}"))?;
                    let url = format!("ws://{}", l.local_addr().map_err(|e| e.to_string())?);
                    let acc = async {
                        let (s, _) = l.accept().await.map_err(|e| format!("accept: {e}"))?;
                        s.set_nodelay(true).ok();
                        tokio_tungstenite::accept_async(s).await.map_err(|e| format!("accept_async: {e}"))
                    };
                    let con = async { WebSocketClient::connect(&url).await.map_err(|e| format!("WebSocketClient::connect: {e}")) };
                    let (a, c) = tokio::time::timeout(Duration::from_secs(10), async { tokio::join!(acc, con) }).await.map_err(|_| "websocket connect timed out".to_string())?;
                    Ok::<_, String>((a?, c?))
                })?;
                let sub = if subscribe { Some(cli.subscribe_notifies().map_err(|_| "subscribe_notifies refused on a fresh client".to_string())?) } else { None };
                (Cli::W(cli), Srv::Ws { ws: Box::new(ws) }, sub)
            }
        };
        Ok(Conn { kind, cli, srv, sub, ids_seen: HashSet::new(), max_id: 0, past_ids: vec![], scenarios: 0, requests: 0 })
    }

    fn drop_conn(c: Conn, rt: &Runtime) {
        let _g = rt.enter();
        drop(c);
    }

    // ------------------------------------------------------------------ history of one scenario

    #[derive(Clone, Debug)]
    struct Req {
        id: u64,
        notify: u8,
        slot: usize,
        tok: String,
        dup_id: bool,
    }

    #[derive(Clone, Debug)]
    struct Sent {
        step: Step,
        id: u64,
        notify: bool,
        /// for notify frames: sequence number in this connection's notify stream
        seq: u64,
        /// the id belonged to a request that had been received and not yet answered
        inflight: bool,
    }

    struct Hist {
        tokens: Vec<String>,
        reqs: Vec<Req>,
        sent: Vec<Sent>,
        outs: Vec<Option<Out>>,
        batch_len: Option<usize>,
        sub_items: Vec<(u64, u8, Value)>,
        events: Vec<(u8, u64)>,
        trouble: Option<String>,
        sentinel_seen: bool,
        unparsed_requests: Vec<String>,
        /// the reply script was applied to fewer than N requests (callers went silent)
        partial: bool,
    }

    struct Ctx<'a> {
        rt: &'a Runtime,
        pool: &'a Pool,
        seed: u64,
        sentinel_ctr: u64,
        notify_seq: u64,
        nonce: u64,
        /// caller-chosen "never used" ids of the forward scenarios: 2^44 + counter
        fresh_ctr: u64,
    }

    fn mk_frame(id: u64, notify: bool, query: &[u8], body: &Value) -> Vec<u8> {
        let b = serde_json::to_vec(body).unwrap();
        // the notify flag is a byte: ANY non-zero value marks a server push (1 mostly; 2, 0x80 and 255 now and then)
        let flag = if notify { [1u8, 1, 1, 2, 0x80, 255][((id as usize) ^ b.len()) % 6] } else { 0 };
        let h = SpecHeader { spec: oracle::SPEC, version: 1, notify: flag, id, query_format: 1, body_format: 2, ec: 0, ..Default::default() };
        oracle::frame(h, query, &b)
    }

    fn issue(conn: &Conn, ctx: &Ctx, scn: &Scn, tokens: &[String], rng: &mut Rng) {
        let sidx = scn.index;
        let body_of = |i: usize| json!({"tok": tokens[i], "slot": i});
        let path_of = |i: usize| format!("/c04/s{i}");
        match scn.mode {
            Mode::Batch => {
                let reqs: Vec<(String, Value)> = (0..scn.n).map(|i| (path_of(i), body_of(i))).collect();
                match &conn.cli {
                    Cli::B(c) => {
                        let _ = ctx.pool.txs[MAX_N].send(Job::Batch { scn: sidx, cli: c.clone(), reqs, timeout: Some(API_TIMEOUT) });
                    }
                    Cli::A(c) => {
                        let (c, tx) = (c.clone(), ctx.pool.res_tx.clone());
                        ctx.rt.spawn(async move {
                            let r = c.batch_json_with_timeout(reqs, API_TIMEOUT).await.into_iter().map(val_res).collect();
                            drop(c);
                            let _ = tx.send(ResMsg::Batch(sidx, r));
                        });
                    }
                    Cli::W(c) => {
                        let (c, tx) = (c.clone(), ctx.pool.res_tx.clone());
                        ctx.rt.spawn(async move {
                            let r = c.batch_json_with_timeout(reqs, API_TIMEOUT).await.into_iter().map(val_res).collect();
                            drop(c);
                            let _ = tx.send(ResMsg::Batch(sidx, r));
                        });
                    }
                }
            }
            Mode::Calls => {
                // issue in a seeded order so that slot number and start order are not correlated
                let mut order: Vec<usize> = (0..scn.n).collect();
                rng.shuffle(&mut order);
                for i in order {
                    let (path, body, api) = (path_of(i), body_of(i), scn.apis[i]);
                    let pre_us = if scn.delays && rng.chance(1, 3) { rng.below(120) as u32 } else { 0 };
                    match &conn.cli {
                        Cli::B(c) => {
                            let _ = ctx.pool.txs[i].send(Job::Call { scn: sidx, cli: c.clone(), slot: i, api, path, body, pre_us });
                        }
                        Cli::A(c) => {
                            let (c, tx) = (c.clone(), ctx.pool.res_tx.clone());
                            ctx.rt.spawn(async move {
                                pre_delay(pre_us);
                                let r = match api {
                                    Api::Json => val_res(c.call_json(&path, &body).await),
                                    Api::JsonT => val_res(c.call_json_with_timeout(&path, &body, API_TIMEOUT).await),
                                    Api::Msg => {
                                        let bytes = serde_json::to_vec(&body).unwrap();
                                        msg_res(c.call_with_formats_and_timeout(&path, 1, Some(&bytes), 2, API_TIMEOUT).await)
                                    }
                                    Api::Notify => unit_res(c.notify_json(&path, &body).await),
                                };
                                drop(c);
                                let _ = tx.send(ResMsg::One(sidx, i, r));
                            });
                        }
                        Cli::W(c) => {
                            let (c, tx) = (c.clone(), ctx.pool.res_tx.clone());
                            ctx.rt.spawn(async move {
                                pre_delay(pre_us);
                                let r = match api {
                                    Api::Json => val_res(c.call_json(&path, &body).await),
                                    Api::JsonT => val_res(c.call_json_with_timeout(&path, &body, API_TIMEOUT).await),
                                    Api::Msg => {
                                        let bytes = serde_json::to_vec(&body).unwrap();
                                        msg_res(c.call_with_formats_and_timeout(&path, 1, Some(&bytes), 2, API_TIMEOUT).await)
                                    }
                                    Api::Notify => unit_res(c.notify_json(&path, &body).await),
                                };
                                drop(c);
                                let _ = tx.send(ResMsg::One(sidx, i, r));
                            });
                        }
                    }
                }
            }
        }
    }

    /// Move every caller result that is already available into the history. Returns how many slots have one.
    fn drain_results(ctx: &Ctx, scn: &Scn, hist: &mut Hist, late: bool) -> usize {
        while let Ok(m) = ctx.pool.res_rx.try_recv() {
            store_result(scn, hist, m, late);
        }
        hist.outs.iter().filter(|o| o.is_some()).count()
    }

    fn store_result(scn: &Scn, hist: &mut Hist, m: ResMsg, late: bool) {
        match m {
            ResMsg::One(s, slot, res) if s == scn.index => {
                if slot < hist.outs.len() && hist.outs[slot].is_none() {
                    hist.outs[slot] = Some(Out { res, late });
                }
            }
            ResMsg::Batch(s, v) if s == scn.index => {
                hist.batch_len = Some(v.len());
                for (i, res) in v.into_iter().enumerate() {
                    if i < hist.outs.len() {
                        hist.outs[i] = Some(Out { res, late });
                    }
                }
            }
            _ => {}
        }
    }

    fn all_results_in(scn: &Scn, hist: &Hist) -> bool {
        match scn.mode {
            Mode::Batch => hist.batch_len.is_some(),
            Mode::Calls => hist.outs.iter().all(|o| o.is_some()),
        }
    }

    /// Book one request frame that reached the fake server into the history; returns its slot.
    fn record_req(conn: &mut Conn, hist: &mut Hist, f: oracle::Frame, id_of: &mut [Option<u64>], query_of: &mut [Vec<u8>]) -> Result<usize, String> {
        conn.requests += 1;
        let parsed: Option<(usize, String)> = serde_json::from_slice::<Value>(&f.body).ok().and_then(|v| Some((v.get("slot")?.as_u64()? as usize, v.get("tok")?.as_str()?.to_string())));
        let dup_id = !conn.ids_seen.insert(f.header.id);
        conn.max_id = conn.max_id.max(f.header.id);
        match parsed {
            Some((slot, tok)) if slot < id_of.len() && hist.tokens[slot] == tok && id_of[slot].is_none() => {
                id_of[slot] = Some(f.header.id);
                query_of[slot] = f.query.clone();
                hist.reqs.push(Req { id: f.header.id, notify: f.header.notify, slot, tok, dup_id });
                Ok(slot)
            }
            _ => {
                hist.unparsed_requests.push(format!("id {} notify {} query {:?} body {}", f.header.id, f.header.notify, String::from_utf8_lossy(&f.query), hex_trunc(&f.body, 80)));
                Err("a request that does not belong to this scenario reached the fake server".into())
            }
        }
    }

    static ARRIVAL_QUIET_FLUSHES: AtomicU64 = AtomicU64::new(0);
    static ARRIVAL_WINDOWS: AtomicU64 = AtomicU64::new(0);

    /// Arrival-driven fake server (`Scn::arrival`): every request is answered once it has arrived, in a shuffled
    /// order within a window of at most `w` arrived requests. A window is flushed as soon as it is full, all N
    /// requests are in, or nothing more arrives for a moment: the server never holds back answers while waiting
    /// for requests, so a client that keeps only a bounded number of calls in flight (the blocking client's
    /// batch worker pool) cannot deadlock against it, however it deals its requests out to its workers.
    fn serve_arrival(conn: &mut Conn, ctx: &mut Ctx, scn: &Scn, hist: &mut Hist, rng: &mut Rng, sentinel: u64, w: usize) -> Result<(), String> {
        let n = scn.n;
        let mut id_of: Vec<Option<u64>> = vec![None; n];
        let mut query_of: Vec<Vec<u8>> = vec![vec![]; n];
        let mut answered: Vec<usize> = vec![];
        let mut buffered: Vec<usize> = vec![];
        let mut out: Vec<Vec<u8>> = vec![];
        let deadline = Instant::now() + REQ_WINDOW;
        let mut cur_w = 1 + rng.usize_below(w.max(1));
        let mut partial = false;
        loop {
            if hist.reqs.len() == n && buffered.is_empty() {
                break;
            }
            if buffered.len() < cur_w && hist.reqs.len() < n {
                match conn.srv.recv(ctx.rt, (Instant::now() + Duration::from_millis(40)).min(deadline))? {
                    Some(f) => {
                        let slot = record_req(conn, hist, f, &mut id_of, &mut query_of)?;
                        buffered.push(slot);
                        continue;
                    }
                    None if buffered.is_empty() => {
                        drain_results(ctx, scn, hist, false);
                        if all_results_in(scn, hist) {
                            // the caller is done although requests are missing: it gave up on them
                            partial = true;
                            break;
                        }
                        if Instant::now() >= deadline {
                            return Err(format!("only {} of {} requests reached the arrival-driven fake server within {} s (all that arrived were answered)", hist.reqs.len(), n, REQ_WINDOW.as_secs()));
                        }
                        continue;
                    }
                    None => {
                        ARRIVAL_QUIET_FLUSHES.fetch_add(1, Ordering::Relaxed);
                    }
                }
            }
            ARRIVAL_WINDOWS.fetch_add(1, Ordering::Relaxed);
            rng.shuffle(&mut buffered);
            for s in buffered.drain(..) {
                let id = id_of[s].unwrap();
                if hist.reqs.iter().any(|r| r.slot == s && r.notify != 0) {
                    continue;
                }
                match rng.below(24) {
                    0 => {
                        let uid = id + (1u64 << 32);
                        out.push(mk_frame(uid, false, b"/c04/unknown", &json!({"id": uid, "tok": format!("unk-{}-{}", scn.index, hist.sent.len()), "k": "unk"})));
                        hist.sent.push(Sent { step: Step::Unknown(Unk::Alias32(s)), id: uid, notify: false, seq: 0, inflight: false });
                    }
                    1 => {
                        let r = rng.below(1 << 20) as u32;
                        let uid = (1u64 << 40) + r as u64;
                        out.push(mk_frame(uid, false, b"/c04/unknown", &json!({"id": uid, "tok": format!("unk-{}-{}", scn.index, hist.sent.len()), "k": "unk"})));
                        hist.sent.push(Sent { step: Step::Unknown(Unk::Huge(r)), id: uid, notify: false, seq: 0, inflight: false });
                    }
                    2 if scn.kind == Kind::W => {
                        ctx.notify_seq += 1;
                        let seq = ctx.notify_seq;
                        out.push(mk_frame(id, true, b"/c04/push", &json!({"id": id, "seq": seq, "tok": format!("ntf-{seq}"), "k": "notify"})));
                        hist.sent.push(Sent { step: Step::Notify(Some(s)), id, notify: true, seq, inflight: true });
                    }
                    _ => {}
                }
                out.push(mk_frame(id, false, &query_of[s], &json!({"id": id, "tok": hist.tokens[s], "k": "resp"})));
                hist.sent.push(Sent { step: Step::Resp(s), id, notify: false, seq: 0, inflight: true });
                answered.push(s);
                if rng.chance(1, 16) {
                    let d = *rng.pick(&answered);
                    let did = id_of[d].unwrap();
                    out.push(mk_frame(did, false, &query_of[d], &json!({"id": did, "tok": hist.tokens[d], "k": "dup"})));
                    hist.sent.push(Sent { step: Step::Dup(d), id: did, notify: false, seq: 0, inflight: false });
                }
            }
            conn.srv.send(ctx.rt, &mut out, scn.wmode, rng)?;
            cur_w = 1 + rng.usize_below(w.max(1));
        }
        hist.partial = partial;
        out.push(mk_frame(sentinel, false, b"/c04/sentinel", &json!({"id": sentinel, "tok": "sentinel", "k": "unk"})));
        conn.srv.send(ctx.rt, &mut out, 0, rng)?;
        Ok(())
    }

    /// The fake server's part of a scenario.
    fn serve(conn: &mut Conn, ctx: &mut Ctx, scn: &Scn, hist: &mut Hist, rng: &mut Rng, sentinel: u64) -> Result<(), String> {
        if let Some(w) = scn.arrival {
            return serve_arrival(conn, ctx, scn, hist, rng, sentinel, w);
        }
        let n = scn.n;
        let mut id_of: Vec<Option<u64>> = vec![None; n];
        let mut query_of: Vec<Vec<u8>> = vec![vec![]; n];
        let mut answered = vec![false; n];
        let deadline = Instant::now() + REQ_WINDOW;
        let mut out: Vec<Vec<u8>> = vec![];

        /// Ok(true): one more request recorded. Ok(false): nothing more is coming for now (a caller gave up
        /// before sending, or the callers have been silent for QUIET while some requests are missing).
        fn read_one(conn: &mut Conn, ctx: &Ctx, scn: &Scn, hist: &mut Hist, id_of: &mut [Option<u64>], query_of: &mut [Vec<u8>], deadline: Instant) -> Result<bool, String> {
            const QUIET: Duration = Duration::from_millis(2500);
            let started = Instant::now();
            let mut early_failure: Option<Instant> = None;
            let f = loop {
                if let Some(f) = conn.srv.recv(ctx.rt, (Instant::now() + Duration::from_millis(40)).min(deadline))? {
                    break f;
                }
                // nothing arrived for a moment: has a caller already given up without sending?
                drain_results(ctx, scn, hist, false);
                let gave_up = hist.batch_len.is_some() || hist.outs.iter().enumerate().any(|(i, o)| id_of[i].is_none() && matches!(o, Some(Out { res: Res::Err(_), .. })));
                if gave_up {
                    let since = *early_failure.get_or_insert_with(Instant::now);
                    if since.elapsed() > Duration::from_millis(400) {
                        return Ok(false);
                    }
                }
                if !hist.reqs.is_empty() && started.elapsed() > QUIET {
                    return Ok(false);
                }
                if Instant::now() >= deadline {
                    return Err(format!("only {} of {} requests reached the fake server within {} s", hist.reqs.len(), scn.n, REQ_WINDOW.as_secs()));
                }
            };
            record_req(conn, hist, f, id_of, query_of).map(|_| true)
        }

        // `partial`: the callers went silent before all N requests were in (for instance a call was refused
        // by the client before sending); the script is then applied to the requests that did arrive
        let mut partial = false;
        if !scn.eager {
            while hist.reqs.len() < n && !partial {
                partial = !read_one(conn, ctx, scn, hist, &mut id_of, &mut query_of, deadline)?;
            }
        }
        for step in &scn.steps {
            // the request this step refers to must have arrived
            let need = match step {
                Step::Resp(s) | Step::Dup(s) | Step::Notify(Some(s)) | Step::Unknown(Unk::Alias32(s)) => Some(*s),
                _ => None,
            };
            if let Some(s) = need {
                while id_of[s].is_none() && !partial {
                    conn.srv.send(ctx.rt, &mut out, scn.wmode, rng)?;
                    partial = !read_one(conn, ctx, scn, hist, &mut id_of, &mut query_of, deadline)?;
                }
                if id_of[s].is_none() {
                    continue;
                }
            }
            let all_in = hist.reqs.len() == n;
            match *step {
                Step::Resp(s) => {
                    let id = id_of[s].unwrap();
                    out.push(mk_frame(id, false, &query_of[s], &json!({"id": id, "tok": hist.tokens[s], "k": "resp"})));
                    hist.sent.push(Sent { step: *step, id, notify: false, seq: 0, inflight: !answered[s] });
                    answered[s] = true;
                }
                Step::Dup(s) => {
                    let id = id_of[s].unwrap();
                    out.push(mk_frame(id, false, &query_of[s], &json!({"id": id, "tok": hist.tokens[s], "k": "dup"})));
                    hist.sent.push(Sent { step: *step, id, notify: false, seq: 0, inflight: !answered[s] });
                }
                Step::Unknown(u) => {
                    let id = match u {
                        Unk::Zero => 0,
                        Unk::Huge(r) => (1u64 << 40) + r as u64,
                        // only when every request of this scenario is in: otherwise "max id + 1" could be
                        // the id of a call of this very scenario that is already registered
                        Unk::Future(k) if all_in => conn.max_id + 1 + k as u64,
                        Unk::Future(k) => (1u64 << 41) + k as u64,
                        Unk::Alias32(s) => id_of[s].unwrap() + (1u64 << 32),
                        Unk::Past => match conn.past_ids.len() {
                            0 => (1u64 << 42) + 7,
                            l => conn.past_ids[rng.usize_below(l)],
                        },
                    };
                    out.push(mk_frame(id, false, b"/c04/unknown", &json!({"id": id, "tok": format!("unk-{}-{}", scn.index, hist.sent.len()), "k": "unk"})));
                    hist.sent.push(Sent { step: *step, id, notify: false, seq: 0, inflight: false });
                }
                Step::Notify(target) => {
                    let (id, inflight) = match target {
                        Some(s) => (id_of[s].unwrap(), !answered[s]),
                        None => ((1u64 << 43) + rng.below(1000), false),
                    };
                    ctx.notify_seq += 1;
                    let seq = ctx.notify_seq;
                    out.push(mk_frame(id, true, b"/c04/push", &json!({"id": id, "seq": seq, "tok": format!("ntf-{seq}"), "k": "notify"})));
                    hist.sent.push(Sent { step: *step, id, notify: true, seq, inflight });
                }
                Step::NotifyZero => {
                    ctx.notify_seq += 1;
                    let seq = ctx.notify_seq;
                    out.push(mk_frame(0, true, b"/c04/push", &json!({"id": 0, "seq": seq, "tok": format!("ntf-{seq}"), "k": "notify"})));
                    hist.sent.push(Sent { step: *step, id: 0, notify: true, seq, inflight: false });
                }
            }
            if scn.eager && rng.coin() {
                conn.srv.send(ctx.rt, &mut out, scn.wmode, rng)?;
            }
        }
        conn.srv.send(ctx.rt, &mut out, scn.wmode, rng)?;
        while hist.reqs.len() < n {
            // stop only when every missing request belongs to a caller that has already failed (it gave up
            // before sending); a caller that succeeded has its request in the pipe
            drain_results(ctx, scn, hist, false);
            if all_results_in(scn, hist) && (0..n).filter(|i| id_of[*i].is_none()).all(|i| matches!(&hist.outs[i], Some(Out { res: Res::Err(_), .. }))) {
                break;
            }
            let before = hist.reqs.len();
            if read_one(conn, ctx, scn, hist, &mut id_of, &mut query_of, deadline)? {
                // a request that arrived after its scripted steps were skipped is answered directly
                let r = hist.reqs[before].clone();
                if partial && r.notify == 0 && !answered[r.slot] {
                    out.push(mk_frame(r.id, false, &query_of[r.slot], &json!({"id": r.id, "tok": r.tok, "k": "resp"})));
                    hist.sent.push(Sent { step: Step::Resp(r.slot), id: r.id, notify: false, seq: 0, inflight: true });
                    answered[r.slot] = true;
                    conn.srv.send(ctx.rt, &mut out, 0, rng)?;
                }
            } else {
                partial = true;
            }
        }
        hist.partial = partial;
        // sentinel: an unknown-id frame; once the client's reader announces it, every earlier frame of
        // this scenario has been dispatched completely (the reader is sequential)
        out.push(mk_frame(sentinel, false, b"/c04/sentinel", &json!({"id": sentinel, "tok": "sentinel", "k": "unk"})));
        conn.srv.send(ctx.rt, &mut out, 0, rng)?;
        Ok(())
    }

    fn run_scn(conn: &mut Conn, ctx: &mut Ctx, scn: &Scn) -> Hist {
        let mut rng = Rng::new(ctx.seed ^ scn.salt.rotate_left(17) ^ 0xC04);
        ctx.nonce += 1;
        let kc = match scn.kind {
            Kind::B => 'b',
            Kind::A => 'a',
            Kind::W => 'w',
        };
        let tokens: Vec<String> = (0..scn.n).map(|i| format!("{kc}{}-{}-{:x}", scn.index, i, mix(ctx.nonce ^ (i as u64) << 32) & 0xffff_ffff)).collect();
        let mut hist = Hist {
            tokens: tokens.clone(),
            reqs: vec![],
            sent: vec![],
            outs: vec![None; scn.n],
            batch_len: None,
            sub_items: vec![],
            events: vec![],
            trouble: None,
            sentinel_seen: false,
            unparsed_requests: vec![],
            partial: false,
        };
        // stale results of abandoned scenarios
        while ctx.pool.res_rx.try_recv().is_ok() {}
        LOG.lock().unwrap_or_else(|e| e.into_inner()).clear();
        SALT.store(scn.salt, Ordering::Relaxed);
        DELAYS.store(scn.delays, Ordering::Relaxed);
        ctx.sentinel_ctr += 1;
        let sentinel = SENT_BASE + ctx.sentinel_ctr;

        issue(conn, ctx, scn, &tokens, &mut rng);
        if let Err(e) = serve(conn, ctx, scn, &mut hist, &mut rng, sentinel) {
            hist.trouble = Some(e);
            conn.srv.close(ctx.rt);
        }

        // collect the callers' results: first inside the generous window, then (socket shut so that
        // every waiting call is released) as "late"
        // Waiting longer cannot change anything once the reader has gone past the sentinel and, for every
        // call that has not returned, has consumed all frames carrying its id without reaching the deliver
        // point: that call's only response is gone (decided on events, not on time).
        let hopeless = |hist: &Hist| -> bool {
            if SENTINEL_SEEN.load(Ordering::SeqCst) != sentinel || scn.mode == Mode::Batch {
                return false;
            }
            let ev = LOG.lock().unwrap_or_else(|e| e.into_inner()).clone();
            (0..scn.n).filter(|i| hist.outs[*i].is_none()).all(|i| match hist.reqs.iter().find(|r| r.slot == i) {
                Some(r) if r.notify == 0 => {
                    let frames = hist.sent.iter().filter(|s| s.id == r.id).count();
                    let resp = hist.sent.iter().any(|s| s.id == r.id && matches!(s.step, Step::Resp(_)));
                    let received = ev.iter().filter(|e| e.0 == P_RECEIVED && e.1 == r.id).count();
                    let delivered = ev.iter().any(|e| e.0 == P_BEFORE_DELIVER && e.1 == r.id);
                    resp && received >= frames && !delivered
                }
                _ => false,
            })
        };
        let collect = |until: Instant, late: bool, hist: &mut Hist| {
            while !all_results_in(scn, hist) {
                let now = Instant::now();
                if now >= until {
                    break;
                }
                match ctx.pool.res_rx.recv_timeout((until - now).min(Duration::from_millis(150))) {
                    Ok(m) => store_result(scn, hist, m, late),
                    Err(mpsc::RecvTimeoutError::Timeout) => {
                        if !late && hopeless(hist) {
                            break;
                        }
                    }
                    Err(_) => break,
                }
            }
        };
        let window = if hist.trouble.is_some() { Duration::from_secs(5) } else { CALL_WINDOW };
        collect(Instant::now() + window, hist.trouble.is_some(), &mut hist);
        if !all_results_in(scn, &hist) {
            // window over: release whoever still waits, and remember that they were late
            let until_sentinel = Instant::now() + Duration::from_millis(200);
            while SENTINEL_SEEN.load(Ordering::SeqCst) != sentinel && Instant::now() < until_sentinel {
                std::thread::sleep(Duration::from_millis(1));
            }
            hist.sentinel_seen = SENTINEL_SEEN.load(Ordering::SeqCst) == sentinel;
            conn.srv.close(ctx.rt);
            collect(Instant::now() + Duration::from_secs(6), true, &mut hist);
        } else if hist.trouble.is_none() {
            let until = Instant::now() + Duration::from_secs(10);
            let mut spins = 0u32;
            while SENTINEL_SEEN.load(Ordering::SeqCst) != sentinel && Instant::now() < until {
                spins += 1;
                if spins < 200 {
                    std::thread::yield_now();
                } else {
                    std::thread::sleep(Duration::from_micros(50));
                }
            }
            hist.sentinel_seen = SENTINEL_SEEN.load(Ordering::SeqCst) == sentinel;
        }
        DELAYS.store(false, Ordering::Relaxed);
        if let Some(rx) = conn.sub.as_mut() {
            while let Ok(m) = rx.try_recv() {
                let v: Value = serde_json::from_slice(&m.body).unwrap_or_else(|_| json!({"unparsed_body_hex": hex_trunc(&m.body, 64)}));
                hist.sub_items.push((m.header.id, m.header.notify, v));
            }
        }
        hist.events = std::mem::take(&mut *LOG.lock().unwrap_or_else(|e| e.into_inner()));
        for r in &hist.reqs {
            if r.notify == 0 && conn.past_ids.len() < 64 {
                conn.past_ids.push(r.id);
            } else if r.notify == 0 {
                let k = rng.usize_below(64);
                conn.past_ids[k] = r.id;
            }
        }
        conn.scenarios += 1;
        hist
    }

    // ------------------------------------------------------------------ the oracle (offline over one history)

    #[derive(Default)]
    struct Verdict {
        violations: Vec<(String, String)>,
        inconclusive: Vec<String>,
        ok_calls: u64,
        timeouts: u64,
        anomalies: bool,
        /// TCP clients only (no subscriber API, behaviour unspecified): calls that returned a pushed frame carrying
        /// their own in-flight id
        tcp_push_taken: u64,
    }

    fn judge(scn: &Scn, h: &Hist, stall_ms: u64) -> Verdict {
        let mut v = Verdict::default();
        let (k, m) = (scn.kind.name(), scn.mode.name());
        let healthy = h.trouble.is_none() && h.sentinel_seen;
        let id_of_slot: HashMap<usize, u64> = h.reqs.iter().map(|r| (r.slot, r.id)).collect();
        let slot_of_tok: HashMap<&str, usize> = h.tokens.iter().enumerate().map(|(i, t)| (t.as_str(), i)).collect();

        // ids issued on one connection are distinct
        for r in &h.reqs {
            if r.dup_id {
                v.violations.push((format!("C04:{k}:duplicate-request-id"), format!("request id {} (slot {}, token {}) had already been used on this connection", r.id, r.slot, r.tok)));
            }
            let want_notify = scn.apis[r.slot] == Api::Notify;
            if (r.notify != 0) != want_notify {
                v.inconclusive.push(format!("request of slot {} arrived with notify={} (api {:?})", r.slot, r.notify, scn.apis[r.slot]));
            }
        }
        if let Some(t) = &h.trouble {
            v.inconclusive.push(format!("harness trouble in scenario {} #{} ({k}/{m}, n={}): {t}; {}", scn.family, scn.index, scn.n, h.unparsed_requests.join(" | ")));
            v.anomalies = true;
        }
        if scn.mode == Mode::Batch {
            if let Some(l) = h.batch_len {
                if l != scn.n {
                    v.violations.push((format!("C04:{k}:batch:result-count"), format!("batch_json of {} requests returned {l} results", scn.n)));
                }
            }
        }

        // who carried which token / id, to explain a missing response
        let mut carried_by: HashMap<usize, usize> = HashMap::new(); // owner slot -> slot that returned it
        for (i, o) in h.outs.iter().enumerate() {
            if let Some(Out { res: Res::Body { body, .. }, .. }) = o {
                if let Some(j) = body.get("tok").and_then(|t| t.as_str()).and_then(|t| slot_of_tok.get(t)) {
                    if *j != i && body.get("k").and_then(|x| x.as_str()) != Some("notify") {
                        carried_by.insert(*j, i);
                    }
                }
            }
            if let Some(Out { res: Res::Err(ErrInfo { mismatch: Some((_, got)), .. }), .. }) = o {
                if let Some(r) = h.reqs.iter().find(|r| r.id == *got) {
                    if r.slot != i {
                        carried_by.insert(r.slot, i);
                    }
                }
            }
        }

        for i in 0..scn.n {
            let api = scn.apis[i];
            let own = id_of_slot.get(&i).copied();
            let who = format!("slot {i} (api {api:?}, request id {own:?}, token {})", h.tokens[i]);
            let Some(out) = &h.outs[i] else {
                v.inconclusive.push(format!("{k}/{m}: {who} produced no result inside the harness bound (stall {stall_ms} ms)"));
                v.anomalies = true;
                v.timeouts += 1;
                continue;
            };
            if api == Api::Notify {
                if let Res::Err(e) = &out.res {
                    if healthy {
                        v.inconclusive.push(format!("{k}: notify_json of {who} failed: {}", e.text));
                    }
                }
                continue;
            }
            let timed_out = out.late || matches!(&out.res, Res::Err(e) if e.class == "Io.TimedOut");
            if timed_out && h.trouble.is_none() {
                v.timeouts += 1;
                v.anomalies = true;
                // logical evidence only
                let resp_sent = own.map(|id| h.sent.iter().any(|s| s.id == id && matches!(s.step, Step::Resp(_)))).unwrap_or(false);
                if let Some(j) = carried_by.get(&i) {
                    v.violations.push((
                        format!("C04:{k}:{m}:response-went-to-another-call"),
                        format!("{who} never returned, its response was handed to slot {j} (request id {:?}); outcome of slot {j}: {}", id_of_slot.get(j), show_out(&h.outs[*j])),
                    ));
                } else if resp_sent && own.is_some() {
                    let id = own.unwrap();
                    let frames_with_id = h.sent.iter().filter(|s| s.id == id).count();
                    let received = h.events.iter().filter(|e| e.0 == P_RECEIVED && e.1 == id).count();
                    let delivered = h.events.iter().filter(|e| e.0 == P_BEFORE_DELIVER && e.1 == id).count();
                    let registered_first = matches!((h.events.iter().position(|e| e.0 == P_REGISTERED && e.1 == id), h.events.iter().position(|e| e.0 == P_RECEIVED && e.1 == id)), (Some(a), Some(b)) if a < b);
                    let timeout_removed = h.events.iter().any(|e| e.0 == P_TIMEOUT_REMOVE && e.1 == id);
                    if received >= frames_with_id && delivered == 0 && !timeout_removed && h.sentinel_seen {
                        v.violations.push((
                            format!("C04:{k}:{m}:response-consumed-but-not-delivered"),
                            format!("{who}: the client's reader consumed all {frames_with_id} frame(s) the server sent with id {id} (the request had reached the server before), went on to later frames without ever reaching the deliver point for it, so the call cannot receive its response (call registered before the frame was received: {registered_first}); it had not returned when the harness stopped waiting"),
                        ));
                    } else if delivered > 0 && stall_ms <= 1000 {
                        v.violations.push((
                            format!("C04:{k}:{m}:delivered-but-call-did-not-return"),
                            format!("{who}: reader reached the deliver point for id {id} ({delivered}x) but the call did not return its response inside {} s (stall {stall_ms} ms); outcome {}", CALL_WINDOW.as_secs(), show_out(&h.outs[i])),
                        ));
                    } else {
                        v.inconclusive.push(format!("{k}/{m}: {who} did not return inside {} s; reader received {received}/{frames_with_id} frames with its id, no evidence of mis-delivery (stall {stall_ms} ms)", CALL_WINDOW.as_secs()));
                    }
                } else {
                    v.inconclusive.push(format!("{k}/{m}: {who} did not return inside {} s and its response was not sent (stall {stall_ms} ms)", CALL_WINDOW.as_secs()));
                }
                continue;
            }
            match &out.res {
                Res::NotifyOk => v.inconclusive.push(format!("{who}: harness confusion, NotifyOk for a call")),
                Res::Err(e) => {
                    v.anomalies = true;
                    if let Some((expected, got)) = e.mismatch {
                        let owner = h.reqs.iter().find(|r| r.id == got).map(|r| format!("slot {}", r.slot)).unwrap_or_else(|| classify_foreign_id(h, got));
                        v.violations.push((
                            format!("C04:{k}:{m}:call-got-frame-of-other-id"),
                            format!("{who} was handed a frame with id {got} (belongs to {owner}) and failed with ResponseIdMismatch(expected {expected}, got {got})"),
                        ));
                    } else if e.class == "Io.AlreadyExists" {
                        // the client itself reports that the id it just allocated is still in flight
                        v.violations.push((
                            format!("C04:{k}:duplicate-request-id:reported-by-client"),
                            format!("{who} was refused by the client with `{}` (io kind AlreadyExists): two calls on one connection were given the same request id", e.text),
                        ));
                    } else if own.is_none() && h.trouble.is_some() {
                    } else if own.is_none() {
                        v.inconclusive.push(format!("{k}/{m}: {who} failed with `{}` before its request reached the fake server", e.text));
                    } else if healthy {
                        v.violations.push((
                            format!("C04:{k}:{m}:call-failed:{}", e.class),
                            format!("{who} failed with `{}` although the fake server answered it and the connection stayed healthy (sentinel seen)", e.text),
                        ));
                    } else if h.trouble.is_none() {
                        v.inconclusive.push(format!("{k}/{m}: {who} failed with `{}` on an unhealthy connection (sentinel not seen)", e.text));
                    }
                }
                Res::Body { hdr, body } => {
                    let kk = body.get("k").and_then(|x| x.as_str()).unwrap_or("?");
                    let tok = body.get("tok").and_then(|x| x.as_str()).unwrap_or("?");
                    let bid = body.get("id").and_then(|x| x.as_u64());
                    let mut good = tok == h.tokens[i] && (kk == "resp" || kk == "dup") && bid == own && own.is_some();
                    if let Some((hid, hnotify, hec)) = hdr {
                        if Some(*hid) != own || *hnotify != 0 || *hec != 0 {
                            good = false;
                        }
                    }
                    if good {
                        v.ok_calls += 1;
                        continue;
                    }
                    let is_push = kk == "notify" || matches!(hdr, Some((_, nf, _)) if *nf != 0);
                    if is_push && scn.sub != Sub::Default {
                        let hdr_own = hdr.map(|(hid, _, _)| Some(hid) == own).unwrap_or(true);
                        let pushed_with_own_id = own.map(|id| h.sent.iter().any(|s| s.notify && s.id == id && s.inflight)).unwrap_or(false);
                        let _ = hdr_own;
                        v.anomalies = true;
                        // the statement names all three clients: a frame with the notify flag set is a notification, never "the response
                        // whose id equals its own request's id". The TCP clients have no subscriber API, so a push goes to nobody.
                        let sig = if scn.sub == Sub::NoApi { format!("C04:{k}:no-subscriber-api:push-{}-delivered-to-call", if pushed_with_own_id { "reusing-in-flight-id" } else { "with-other-id" }) } else { format!("C04:{k}:no-subscriber:{}:push-delivered-to-call", scn.sub.state()) };
                        v.violations.push((
                            sig,
                            format!("{who} returned header {hdr:?} body {body}: a pushed frame (notify != 0){} while the client had no live notify subscriber (state: {}); the push must be dropped and the call must return its own response; server sent: {}", if pushed_with_own_id { " reusing its in-flight id" } else { "" }, scn.sub.state(), show_sent(h)),
                        ));
                        continue;
                    }
                    v.anomalies = true;
                    let what = match kk {
                        "notify" => "notify-frame-satisfied-call".to_string(),
                        "unk" => "unknown-id-frame-delivered".to_string(),
                        "resp" | "dup" if slot_of_tok.contains_key(tok) && tok != h.tokens[i] => {
                            if scn.mode == Mode::Batch { "misaligned".to_string() } else { "got-other-calls-response".to_string() }
                        }
                        _ if matches!(hdr, Some((_, nf, _)) if *nf != 0) => "notify-frame-satisfied-call".to_string(),
                        _ => "foreign-response".to_string(),
                    };
                    let other = slot_of_tok.get(tok).map(|j| format!("slot {j} (request id {:?})", id_of_slot.get(j))).unwrap_or_else(|| format!("token {tok}"));
                    v.violations.push((
                        format!("C04:{k}:{m}:{what}"),
                        format!("{who} returned header {hdr:?} body {body} which belongs to {other}; server sent: {}", show_sent(h)),
                    ));
                }
            }
        }

        // notify stream: WebSocket subscriber gets exactly the notify frames, in order
        if scn.kind == Kind::W && scn.sub != Sub::Default {
            // no live subscriber: a receiver that was unsubscribed must not see anything
            for (id, nf, body) in &h.sub_items {
                v.anomalies = true;
                v.violations.push((format!("C04:ws:no-subscriber:{}:push-reached-old-receiver", scn.sub.state()), format!("a receiver that is no longer subscribed received a frame with id {id}, notify flag {nf}, body {body}")));
            }
        } else if scn.kind == Kind::W {
            let want: Vec<u64> = h.sent.iter().filter(|s| s.notify).map(|s| s.seq).collect();
            let mut got: Vec<u64> = vec![];
            for (id, nf, body) in &h.sub_items {
                let kk = body.get("k").and_then(|x| x.as_str()).unwrap_or("?");
                if kk != "notify" || *nf == 0 {
                    v.violations.push((format!("C04:ws:subscriber-got-non-notify"), format!("the notify subscriber received a frame with id {id}, notify flag {nf}, body {body}")));
                } else {
                    got.push(body.get("seq").and_then(|x| x.as_u64()).unwrap_or(0));
                }
            }
            if got != want {
                v.anomalies = true;
                let mut gs = got.clone();
                gs.sort();
                let mut ws = want.clone();
                ws.sort();
                if gs == ws {
                    v.violations.push(("C04:ws:notify-reordered".into(), format!("subscriber received notify seq {got:?}, server pushed {want:?}")));
                } else if got.iter().any(|g| !want.contains(g)) || has_dup(&got) {
                    v.violations.push(("C04:ws:notify-duplicated-or-foreign".into(), format!("subscriber received notify seq {got:?}, server pushed {want:?}")));
                } else if healthy {
                    let missing: Vec<u64> = want.iter().filter(|w| !got.contains(w)).copied().collect();
                    let inflight: Vec<bool> = missing.iter().map(|q| h.sent.iter().any(|s| s.notify && s.seq == *q && s.inflight)).collect();
                    v.violations.push(("C04:ws:notify-not-delivered-to-subscriber".into(), format!("subscriber received notify seq {got:?}, server pushed {want:?}; missing {missing:?} (id was in flight: {inflight:?}); reader had processed everything (sentinel seen)")));
                } else {
                    v.inconclusive.push(format!("ws: subscriber got {got:?} of {want:?} on an unhealthy connection"));
                }
            }
        } else if h.sent.iter().any(|s| s.notify) && scn.sub != Sub::NoApi {
            v.inconclusive.push("harness bug: notify frame scripted for a TCP client".into());
        }
        if !h.sentinel_seen && h.trouble.is_none() && v.violations.is_empty() && v.timeouts == 0 {
            v.inconclusive.push(format!("{k}/{m}: sentinel frame not seen by the client's reader within 10 s (stall {stall_ms} ms)"));
            v.anomalies = true;
        }
        v
    }

    fn has_dup(v: &[u64]) -> bool {
        let mut s = HashSet::new();
        v.iter().any(|x| !s.insert(*x))
    }

    fn classify_foreign_id(h: &Hist, id: u64) -> String {
        match h.sent.iter().find(|s| s.id == id) {
            Some(s) => format!("scripted frame {:?}", s.step),
            None => "no frame of this scenario".into(),
        }
    }

    fn show_out(o: &Option<Out>) -> String {
        match o {
            None => "no result".into(),
            Some(Out { res: Res::Body { hdr, body }, late }) => format!("header {hdr:?} body {body} late={late}"),
            Some(Out { res: Res::Err(e), late }) => format!("error `{}` late={late}", e.text),
            Some(Out { res: Res::NotifyOk, .. }) => "notify ok".into(),
        }
    }

    fn show_sent(h: &Hist) -> String {
        let v: Vec<String> = h.sent.iter().take(24).map(|s| format!("{:?}#{}{}", s.step, s.id, if s.notify { "n" } else { "" })).collect();
        format!("[{}{}]", v.join(", "), if h.sent.len() > 24 { ", …" } else { "" })
    }

    /// Hashes of the probe-event order of a scenario, ids made relative to the scenario's first id.
    fn interleaving_hashes(h: &Hist) -> (u64, u64) {
        let slot_of_id: HashMap<u64, usize> = h.reqs.iter().map(|r| (r.id, r.slot)).collect();
        let rel = |id: u64| -> u64 {
            match slot_of_id.get(&id) {
                Some(s) => *s as u64,
                None if id >= SENT_BASE => 10_000,
                None => 20_000,
            }
        };
        let full: Vec<(u8, u64)> = h.events.iter().map(|e| (e.0, rel(e.1))).collect();
        let caller: Vec<(u8, u64)> = full.iter().filter(|e| e.0 <= P_WRITTEN).copied().collect();
        (hash_of(&full), hash_of(&caller))
    }

    // ------------------------------------------------------------------ caller-chosen ids: AsyncClient::forward_message*
    //
    // `forward_message` / `forward_message_with_timeout` register the id the CALLER put into the message (a proxy
    // relaying downstream frames over one shared upstream client). Only `AsyncClient` has this API (the blocking
    // and the WebSocket client register counter ids only). A forward whose id equals an in-flight id must be
    // refused WITHOUT disturbing the in-flight call and without writing; ids that are not in flight (never used,
    // or used by a call that has completed) must work like any other call.

    #[derive(Clone, Copy, PartialEq, Eq, Hash, Debug)]
    enum FId {
        /// an id nobody has used on this connection
        Fresh,
        /// id 0 (the counter starts at 1)
        Zero,
        /// the id of warm-up call `k` of this scenario, completed before anything else starts
        Past(usize),
        /// the id of base call `slot`, in flight (its request has reached the fake server, no answer yet)
        Collide(usize),
        /// the id of wave-A forward `j`, in flight
        CollideFwd(usize),
        /// the id of op `op` of an earlier wave, completed (or refused) by now
        Done(usize),
    }

    #[derive(Clone, Copy, PartialEq, Eq, Hash, Debug)]
    struct FOp {
        fid: FId,
        with_timeout: bool,
        notify: bool,
    }

    #[derive(Clone, Debug)]
    struct FScn {
        index: u64,
        n_warm: usize,
        base_apis: Vec<Api>,
        wave_a: Vec<FOp>,
        wave_b: Vec<FOp>,
        post: Vec<FOp>,
        /// answer some of the base calls that no forward collides with BEFORE wave B (their ids are then complete)
        extras: bool,
        wmode: u8,
        salt: u64,
        delays: bool,
    }

    impl FScn {
        fn identity(&self) -> (usize, &[Api], &[FOp], &[FOp], &[FOp], bool, u8) {
            (self.n_warm, &self.base_apis, &self.wave_a, &self.wave_b, &self.post, self.extras, self.wmode)
        }
        fn to_json(&self, seed: u64) -> Value {
            json!({
                "seed": seed, "family": "forward", "index": self.index, "client": "async", "n_warm": self.n_warm,
                "base_apis": self.base_apis.iter().map(|a| format!("{a:?}")).collect::<Vec<_>>(),
                "wave_a": self.wave_a.iter().map(|a| format!("{a:?}")).collect::<Vec<_>>(),
                "wave_b": self.wave_b.iter().map(|a| format!("{a:?}")).collect::<Vec<_>>(),
                "post": self.post.iter().map(|a| format!("{a:?}")).collect::<Vec<_>>(),
                "extras": self.extras, "wmode": self.wmode, "salt": self.salt, "delays": self.delays,
            })
        }
    }

    #[derive(Clone, Copy, PartialEq, Eq, Debug)]
    enum OpClass {
        Warm,
        Base,
        /// forward with an id that is not in flight: must go through
        Free,
        /// forward (notify = 0) with an in-flight id: must be refused
        Clash,
        /// forward of a notify frame carrying an in-flight id: written, no response awaited
        ClashNotify,
    }

    #[derive(Clone, Debug)]
    struct OpInfo {
        class: OpClass,
        /// 0 warm-up, 1 base, 2 wave A, 3 wave B, 4 post
        wave: u8,
        desc: String,
        tok: String,
        /// id the caller chose (forwards) / the id seen on the wire (calls)
        id: Option<u64>,
        /// op whose in-flight id a Clash / ClashNotify op reuses
        target: Option<usize>,
    }

    #[derive(Clone, Debug)]
    struct WireReq {
        id: u64,
        notify: u8,
        op: Option<usize>,
        body_ok: bool,
        /// number of frames the server had already sent when this one arrived
        sent_before: usize,
    }

    struct FHist {
        ops: Vec<OpInfo>,
        wire: Vec<WireReq>,
        /// (id, token, kind) of every frame the fake server sent, in order
        sent: Vec<(u64, String, &'static str)>,
        outs: Vec<Option<Res>>,
        events: Vec<(u8, u64)>,
        trouble: Option<String>,
        sentinel_seen: bool,
        pending_after: Option<usize>,
    }

    struct FwdRun<'a, 'b> {
        conn: &'a mut Conn,
        ctx: &'a mut Ctx<'b>,
        h: FHist,
        tx: mpsc::Sender<(usize, Res)>,
        rx: mpsc::Receiver<(usize, Res)>,
        rng: Rng,
        wmode: u8,
    }

    impl FwdRun<'_, '_> {
        fn cli(&self) -> AsyncClient {
            match &self.conn.cli {
                Cli::A(c) => c.clone(),
                _ => unreachable!("forward scenarios run on an AsyncClient connection"),
            }
        }

        fn add_op(&mut self, class: OpClass, wave: u8, desc: String, id: Option<u64>, target: Option<usize>, scn_index: u64) -> usize {
            let op = self.h.ops.len();
            self.ctx.nonce += 1;
            let tok = format!("f{scn_index}-{op}-{:x}", mix(self.ctx.nonce ^ (op as u64) << 32) & 0xffff_ffff);
            self.h.ops.push(OpInfo { class, wave, desc, tok, id, target });
            self.h.outs.push(None);
            op
        }

        fn spawn_call(&self, op: usize, api: Api) {
            let (c, tx) = (self.cli(), self.tx.clone());
            let body = json!({"tok": self.h.ops[op].tok, "op": op});
            let path = format!("/c04/f{op}");
            self.ctx.rt.spawn(async move {
                let r = match api {
                    Api::Json => val_res(c.call_json(&path, &body).await),
                    Api::Msg => {
                        let bytes = serde_json::to_vec(&body).unwrap();
                        msg_res(c.call_with_formats_and_timeout(&path, 1, Some(&bytes), 2, API_TIMEOUT).await)
                    }
                    _ => val_res(c.call_json_with_timeout(&path, &body, API_TIMEOUT).await),
                };
                drop(c);
                let _ = tx.send((op, r));
            });
        }

        fn spawn_forward(&self, op: usize, f: FOp) {
            let (c, tx) = (self.cli(), self.tx.clone());
            let body = serde_json::to_vec(&json!({"tok": self.h.ops[op].tok, "op": op})).unwrap();
            let msg = repe::Message::builder().id(self.h.ops[op].id.unwrap()).notify(f.notify).query_str(&format!("/c04/f{op}")).query_format_code(1).body_bytes(body).body_format_code(2).build();
            self.ctx.rt.spawn(async move {
                let r = if f.with_timeout { c.forward_message_with_timeout(&msg, API_TIMEOUT).await } else { c.forward_message(&msg).await };
                let res = match r {
                    Ok(Some(m)) => msg_res(Ok(m)),
                    Ok(None) => Res::NotifyOk,
                    Err(e) => Res::Err(err_info(&e)),
                };
                drop(c);
                let _ = tx.send((op, res));
            });
        }

        fn drain(&mut self) {
            while let Ok((op, r)) = self.rx.try_recv() {
                if op < self.h.outs.len() && self.h.outs[op].is_none() {
                    self.h.outs[op] = Some(r);
                }
            }
        }

        fn on_wire(&self, op: usize) -> bool {
            self.h.wire.iter().any(|w| w.op == Some(op))
        }

        /// Read request frames and collect results until every op of `wire` has its frame at the fake server and
        /// every op of `results` has returned. Stops early when an op of `must_not_write` shows up on the wire
        /// (that is the evidence the wait was for). Ok(false): the window ran out.
        fn pump(&mut self, wire: &[usize], results: &[usize], must_not_write: &[usize], window: Duration) -> Result<bool, String> {
            let until = Instant::now() + window;
            loop {
                self.drain();
                let wire_ok = wire.iter().all(|o| self.on_wire(*o));
                let res_ok = results.iter().all(|o| self.h.outs[*o].is_some());
                if wire_ok && res_ok {
                    return Ok(true);
                }
                if wire_ok && must_not_write.iter().any(|o| self.on_wire(*o)) {
                    return Ok(true);
                }
                if Instant::now() >= until {
                    return Ok(false);
                }
                if wire_ok {
                    if let Ok((op, r)) = self.rx.recv_timeout(Duration::from_millis(1)) {
                        if op < self.h.outs.len() && self.h.outs[op].is_none() {
                            self.h.outs[op] = Some(r);
                        }
                        continue;
                    }
                }
                self.read_one()?;
            }
        }

        /// One read attempt on the fake server's side (the socket's read timeout is 2 ms on this connection); a
        /// request frame that arrived is booked into the history.
        fn read_one(&mut self) -> Result<(), String> {
            {
                if let Some(f) = self.conn.srv.recv(self.ctx.rt, Instant::now())? {
                    self.conn.requests += 1;
                    let v: Option<Value> = serde_json::from_slice(&f.body).ok();
                    let op = v.as_ref().and_then(|v| v.get("op")?.as_u64()).map(|o| o as usize).filter(|o| *o < self.h.ops.len());
                    let tok = v.as_ref().and_then(|v| v.get("tok")?.as_str());
                    let body_ok = matches!((op, tok), (Some(o), Some(t)) if self.h.ops[o].tok == t) && f.query == format!("/c04/f{}", op.unwrap_or(0)).as_bytes();
                    if let Some(o) = op {
                        if matches!(self.h.ops[o].class, OpClass::Warm | OpClass::Base) && self.h.ops[o].id.is_none() {
                            self.h.ops[o].id = Some(f.header.id);
                            self.conn.max_id = self.conn.max_id.max(f.header.id);
                        }
                    }
                    self.h.wire.push(WireReq { id: f.header.id, notify: f.header.notify, op, body_ok, sent_before: self.h.sent.len() });
                    if op.is_none() {
                        return Err(format!("a frame that does not belong to this scenario reached the fake server: id {} query {:?} body {}", f.header.id, String::from_utf8_lossy(&f.query), hex_trunc(&f.body, 60)));
                    }
                }
            }
            Ok(())
        }

        /// Answer every (non-notify) wire frame of the given ops, in a shuffled order.
        fn answer(&mut self, ops: &[usize], extras: bool) -> Result<(), String> {
            let mut frames: Vec<(u64, String)> = vec![];
            for w in &self.h.wire {
                if let Some(o) = w.op {
                    if ops.contains(&o) && w.notify == 0 {
                        frames.push((w.id, self.h.ops[o].tok.clone()));
                    }
                }
            }
            self.rng.shuffle(&mut frames);
            let mut out: Vec<Vec<u8>> = vec![];
            for (i, (id, tok)) in frames.iter().enumerate() {
                if extras && self.rng.chance(1, 6) {
                    let uid = (1u64 << 40) + self.rng.below(1 << 20);
                    out.push(mk_frame(uid, false, b"/c04/unknown", &json!({"id": uid, "tok": "unk-fwd", "k": "unk"})));
                    self.h.sent.push((uid, "unk-fwd".into(), "unk"));
                }
                out.push(mk_frame(*id, false, b"/c04/fwd", &json!({"id": id, "tok": tok, "k": "resp"})));
                self.h.sent.push((*id, tok.clone(), "resp"));
                if extras && self.rng.chance(1, 8) {
                    let (did, dtok) = frames[self.rng.usize_below(i + 1)].clone();
                    out.push(mk_frame(did, false, b"/c04/fwd", &json!({"id": did, "tok": dtok, "k": "dup"})));
                    self.h.sent.push((did, dtok, "dup"));
                }
            }
            let mut rng = self.rng.fork(7);
            self.conn.srv.send(self.ctx.rt, &mut out, self.wmode, &mut rng)
        }
    }

    const FWD_WINDOW: Duration = Duration::from_secs(8);

    fn run_fwd(conn: &mut Conn, ctx: &mut Ctx, fs: &FScn) -> FHist {
        let rng = Rng::new(ctx.seed ^ fs.salt.rotate_left(23) ^ 0xF0C04);
        LOG.lock().unwrap_or_else(|e| e.into_inner()).clear();
        SALT.store(fs.salt, Ordering::Relaxed);
        DELAYS.store(fs.delays, Ordering::Relaxed);
        ctx.sentinel_ctr += 1;
        let sentinel = SENT_BASE + ctx.sentinel_ctr;
        if let Srv::Tcp { s, .. } = &conn.srv {
            s.set_read_timeout(Some(Duration::from_millis(2))).ok();
        }
        let (tx, rx) = mpsc::channel();
        let h = FHist { ops: vec![], wire: vec![], sent: vec![], outs: vec![], events: vec![], trouble: None, sentinel_seen: false, pending_after: None };
        let mut run = FwdRun { conn, ctx, h, tx, rx, rng, wmode: fs.wmode };
        let r = fwd_phases(&mut run, fs, sentinel);
        if let Err(e) = r {
            run.h.trouble = Some(e);
        }
        if run.h.trouble.is_some() {
            // release whoever still waits
            run.conn.srv.close(run.ctx.rt);
            let until = Instant::now() + Duration::from_secs(3);
            while run.h.outs.iter().any(|o| o.is_none()) && Instant::now() < until {
                run.drain();
                std::thread::sleep(Duration::from_millis(2));
            }
        } else {
            let until = Instant::now() + Duration::from_secs(10);
            while SENTINEL_SEEN.load(Ordering::SeqCst) != sentinel && Instant::now() < until {
                std::thread::sleep(Duration::from_micros(50));
            }
            run.h.sentinel_seen = SENTINEL_SEEN.load(Ordering::SeqCst) == sentinel;
            if run.h.sentinel_seen && run.h.outs.iter().all(|o| o.is_some()) {
                run.h.pending_after = Some(run.cli().verif_pending_len());
            }
        }
        DELAYS.store(false, Ordering::Relaxed);
        run.h.events = std::mem::take(&mut *LOG.lock().unwrap_or_else(|e| e.into_inner()));
        run.conn.scenarios += 1;
        run.h
    }

    /// Err: harness trouble or a window ran out (the scenario is cut short and judged on what was observed).
    fn fwd_phases(run: &mut FwdRun, fs: &FScn, sentinel: u64) -> Result<(), String> {
        let short = |what: &str| format!("{what} not complete inside {} s", FWD_WINDOW.as_secs());
        // warm-up: calls that complete before anything else; their ids are "already completed" ids
        let warm: Vec<usize> = (0..fs.n_warm).map(|k| run.add_op(OpClass::Warm, 0, format!("warm-up call {k}"), None, None, fs.index)).collect();
        for o in &warm {
            run.spawn_call(*o, Api::JsonT);
        }
        if !run.pump(&warm, &[], &[], FWD_WINDOW)? {
            return Err(short("warm-up requests"));
        }
        run.answer(&warm, false)?;
        if !run.pump(&[], &warm, &[], FWD_WINDOW)? {
            return Err(short("warm-up results"));
        }
        // base calls: counter ids, left in flight
        let base: Vec<usize> = (0..fs.base_apis.len()).map(|i| run.add_op(OpClass::Base, 1, format!("base call {i} ({:?})", fs.base_apis[i]), None, None, fs.index)).collect();
        for (i, o) in base.iter().enumerate() {
            run.spawn_call(*o, fs.base_apis[i]);
        }
        if !run.pump(&base, &[], &[], FWD_WINDOW)? {
            return Err(short("base requests"));
        }
        let mut zero_used = false;
        // ids of the forwards that must go through and may still be in flight (waves A and B overlap)
        let mut used: Vec<u64> = vec![];
        let mut all_fwd: Vec<usize> = vec![];
        let mut answered_early: Vec<usize> = vec![];
        for (wave_no, wave) in [(2u8, &fs.wave_a), (3u8, &fs.wave_b), (4u8, &fs.post)] {
            if wave_no == 3 && fs.extras {
                // base calls no forward of wave B refers to may complete now
                let free: Vec<usize> = base.iter().enumerate().filter(|(i, _)| !fs.wave_b.iter().any(|f| f.fid == FId::Collide(*i))).map(|(_, o)| *o).collect();
                let some: Vec<usize> = free.into_iter().filter(|_| run.rng.coin()).collect();
                if !some.is_empty() {
                    run.answer(&some, true)?;
                    if !run.pump(&[], &some, &[], FWD_WINDOW)? {
                        return Err(short("results of base calls answered before wave B"));
                    }
                    answered_early = some;
                }
            }
            if wave_no == 4 {
                // everything in flight is answered now (refused forwards have nothing to answer)
                let outstanding: Vec<usize> = (0..run.h.ops.len()).filter(|o| !warm.contains(o) && !answered_early.contains(o)).collect();
                let expect: Vec<usize> = outstanding.iter().copied().filter(|o| matches!(run.h.ops[*o].class, OpClass::Base | OpClass::Free)).collect();
                run.answer(&outstanding, fs.extras)?;
                if !run.pump(&[], &expect, &[], CALL_WINDOW)? {
                    return Err(format!("results of the answered calls/forwards not complete inside {} s", CALL_WINDOW.as_secs()));
                }
                // fence: the post wave reuses completed ids, and the fake server may have sent duplicated responses
                // for them. A duplicate the reader consumes AFTER the id has been registered again would rightly be
                // delivered to the new call (server misbehaviour, not the client's). So wait until the reader has
                // gone past everything sent so far (it is sequential): an unknown-id fence frame announced by the
                // reader's `received` probe.
                run.ctx.sentinel_ctr += 1;
                let fence = SENT_BASE + run.ctx.sentinel_ctr;
                let mut out = vec![mk_frame(fence, false, b"/c04/fence", &json!({"id": fence, "tok": "fence", "k": "unk"}))];
                let mut rng = run.rng.fork(11);
                run.conn.srv.send(run.ctx.rt, &mut out, 0, &mut rng)?;
                run.h.sent.push((fence, "fence".into(), "unk"));
                let until = Instant::now() + Duration::from_secs(10);
                while SENTINEL_SEEN.load(Ordering::SeqCst) != fence {
                    if Instant::now() >= until {
                        return Err("the fence frame before the post wave was not seen by the client's reader within 10 s".into());
                    }
                    std::thread::sleep(Duration::from_micros(50));
                }
            }
            let first_op = run.h.ops.len();
            if wave_no == 4 {
                used.clear();
            }
            for f in wave.iter() {
                let (id, class, target): (Option<u64>, OpClass, Option<usize>) = match f.fid {
                    FId::Fresh => {
                        run.ctx.fresh_ctr += 1;
                        (Some((1u64 << 44) + run.ctx.fresh_ctr), OpClass::Free, None)
                    }
                    FId::Zero if !zero_used => {
                        zero_used = true;
                        (Some(0), OpClass::Free, None)
                    }
                    FId::Zero => {
                        run.ctx.fresh_ctr += 1;
                        (Some((1u64 << 44) + run.ctx.fresh_ctr), OpClass::Free, None)
                    }
                    FId::Past(k) => (run.h.ops[warm[k % warm.len()]].id, OpClass::Free, None),
                    FId::Collide(i) => (run.h.ops[base[i % base.len()]].id, OpClass::Clash, Some(base[i % base.len()])),
                    FId::CollideFwd(j) => {
                        let t = all_fwd.iter().copied().filter(|o| run.h.ops[*o].wave == 2 && run.h.ops[*o].class == OpClass::Free).nth(j);
                        match t {
                            Some(t) => (run.h.ops[t].id, OpClass::Clash, Some(t)),
                            None => {
                                run.ctx.fresh_ctr += 1;
                                (Some((1u64 << 44) + run.ctx.fresh_ctr), OpClass::Free, None)
                            }
                        }
                    }
                    FId::Done(k) => {
                        // any id used by an earlier op of this scenario: all are complete (or were refused) by now
                        let cands: Vec<u64> = run.h.ops[..first_op].iter().filter_map(|o| o.id).collect();
                        (cands.get(k % cands.len().max(1)).copied(), OpClass::Free, None)
                    }
                };
                let Some(id) = id else { return Err("harness: id for a forward is not known".into()) };
                let (mut id, mut class, mut target) = (id, class, target);
                if class == OpClass::Free && !f.notify && used.contains(&id) {
                    // two forwards of one wave must not share an id unless that is the point
                    run.ctx.fresh_ctr += 1;
                    id = (1u64 << 44) + run.ctx.fresh_ctr;
                }
                if f.notify {
                    match class {
                        OpClass::Clash => class = OpClass::ClashNotify,
                        _ => {
                            // a notify forward is only interesting with an in-flight id; otherwise make it a plain one
                            target = None;
                            class = OpClass::Free;
                        }
                    }
                }
                let f = FOp { notify: f.notify && class == OpClass::ClashNotify, ..*f };
                if class == OpClass::Free {
                    used.push(id);
                }
                let o = run.add_op(class, wave_no, format!("{:?} forward{}{}", f.fid, if f.with_timeout { "_with_timeout" } else { "" }, if f.notify { " (notify)" } else { "" }), Some(id), target, fs.index);
                all_fwd.push(o);
                run.spawn_forward(o, f);
            }
            let ops: Vec<usize> = (first_op..run.h.ops.len()).collect();
            let writes: Vec<usize> = ops.iter().copied().filter(|o| matches!(run.h.ops[*o].class, OpClass::Free | OpClass::ClashNotify)).collect();
            let refused: Vec<usize> = ops.iter().copied().filter(|o| run.h.ops[*o].class == OpClass::Clash).collect();
            let returns: Vec<usize> = ops.iter().copied().filter(|o| matches!(run.h.ops[*o].class, OpClass::Clash | OpClass::ClashNotify)).collect();
            if !run.pump(&writes, &returns, &refused, FWD_WINDOW)? {
                return Err(short(&format!("wave {wave_no} (frames of the forwards that must write, results of the forwards that must be refused)")));
            }
            if wave_no == 4 {
                run.answer(&ops, false)?;
                let expect: Vec<usize> = ops.iter().copied().filter(|o| run.h.ops[*o].class == OpClass::Free).collect();
                if !run.pump(&[], &expect, &[], CALL_WINDOW)? {
                    return Err(format!("results of the post-wave forwards not complete inside {} s", CALL_WINDOW.as_secs()));
                }
            }
        }
        let mut out = vec![mk_frame(sentinel, false, b"/c04/sentinel", &json!({"id": sentinel, "tok": "sentinel", "k": "unk"}))];
        let mut rng = run.rng.fork(9);
        run.conn.srv.send(run.ctx.rt, &mut out, 0, &mut rng)?;
        // a forward that should have been refused but waits for a response is released by the socket closing later
        Ok(())
    }

    #[derive(Default)]
    struct FVerdict {
        violations: Vec<(String, String)>,
        inconclusive: Vec<String>,
        counts: Vec<(String, u64)>,
        anomalies: bool,
    }

    fn judge_fwd(h: &FHist, stall_ms: u64) -> FVerdict {
        let mut v = FVerdict::default();
        let healthy = h.trouble.is_none() && h.sentinel_seen;
        let tok_owner: HashMap<&str, usize> = h.ops.iter().enumerate().map(|(i, o)| (o.tok.as_str(), i)).collect();
        let mut cnt = |k: &str| v.counts.push((k.to_string(), 1));
        let mut viol: Vec<(String, String)> = vec![];
        let mut inc: Vec<String> = vec![];
        let mut anomalies = false;
        if let Some(t) = &h.trouble {
            inc.push(format!("forward scenario cut short: {t} (stall {stall_ms} ms)"));
            anomalies = true;
        }

        // ids in flight at the same time are distinct on the wire: from the first base request on nothing is
        // answered until wave B is over, except the base calls answered early (their ids are not reused before wave 4)
        let mut open: HashMap<u64, usize> = HashMap::new();
        let mut answered_upto = 0usize;
        for w in &h.wire {
            for (id, _, kind) in &h.sent[answered_upto..w.sent_before.min(h.sent.len())] {
                if *kind == "resp" {
                    open.remove(id);
                }
            }
            answered_upto = answered_upto.max(w.sent_before.min(h.sent.len()));
            if w.notify != 0 {
                continue;
            }
            let Some(o) = w.op else { continue };
            if let Some(prev) = open.insert(w.id, o) {
                viol.push((
                    "C04:async:forward:in-flight-id-written-twice".into(),
                    format!("request id {} reached the fake server for {} while the request of {} with the same id was unanswered: two calls in flight on one connection share an id", w.id, h.ops[o].desc, h.ops[prev].desc),
                ));
            }
            if !w.body_ok {
                inc.push(format!("frame of {} arrived with an altered query/body", h.ops[o].desc));
            }
        }

        for (i, o) in h.ops.iter().enumerate() {
            let frames: Vec<&WireReq> = h.wire.iter().filter(|w| w.op == Some(i)).collect();
            let answered = o.id.map(|id| h.sent.iter().any(|s| s.0 == id && s.1 == o.tok && s.2 == "resp")).unwrap_or(false);
            let clashes: Vec<&OpInfo> = h.ops.iter().filter(|c| c.target == Some(i)).collect();
            let who = format!("{} (id {:?}, token {})", o.desc, o.id, o.tok);
            let clash_note = if clashes.is_empty() { String::new() } else { format!("; while it was in flight {} forward(s) reusing its id were issued: [{}]", clashes.len(), clashes.iter().map(|c| c.desc.clone()).collect::<Vec<_>>().join(", ")) };
            let out = &h.outs[i];
            let returned_tok = |body: &Value| body.get("tok").and_then(|t| t.as_str()).map(|t| t.to_string());
            let owner_of = |body: &Value| -> String {
                match returned_tok(body).as_deref().and_then(|t| tok_owner.get(t)) {
                    Some(j) => format!("{} (id {:?})", h.ops[*j].desc, h.ops[*j].id),
                    None => format!("nobody in this scenario (body {body})"),
                }
            };
            match o.class {
                OpClass::Warm | OpClass::Base | OpClass::Free => {
                    let kindname = match o.class {
                        OpClass::Warm => "warmup-call",
                        OpClass::Base => "inflight-call",
                        _ => match o.wave {
                            4 => "forward-with-completed-id",
                            _ if o.desc.starts_with("Past") => "forward-with-completed-id",
                            _ => "forward-with-unused-id",
                        },
                    };
                    match out {
                        Some(Res::Body { hdr, body }) => {
                            let mut good = returned_tok(body).as_deref() == Some(o.tok.as_str()) && body.get("id").and_then(|x| x.as_u64()) == o.id && o.id.is_some();
                            if let Some((hid, hn, hec)) = hdr {
                                good &= Some(*hid) == o.id && *hn == 0 && *hec == 0;
                            }
                            if o.class == OpClass::Free && frames.len() != 1 {
                                good = false;
                            }
                            if good {
                                cnt(&format!("forward_scn_{}_own_response", kindname.replace('-', "_")));
                                if !clashes.is_empty() {
                                    cnt("forward_scn_inflight_op_survived_colliding_forward");
                                }
                            } else {
                                anomalies = true;
                                viol.push((
                                    format!("C04:async:forward:{kindname}:got-foreign-response"),
                                    format!("{who} returned header {hdr:?} body {body}, which belongs to {}; its own request reached the server {} time(s){clash_note}", owner_of(body), frames.len()),
                                ));
                            }
                        }
                        Some(Res::Err(e)) => {
                            anomalies = true;
                            if let Some((expected, got)) = e.mismatch {
                                viol.push((format!("C04:async:forward:{kindname}:got-frame-of-other-id"), format!("{who} failed with ResponseIdMismatch(expected {expected}, got {got}){clash_note}")));
                            } else if o.class == OpClass::Free && frames.is_empty() && healthy {
                                viol.push((
                                    format!("C04:async:forward:{kindname}:refused:{}", e.class),
                                    format!("{who} was refused with `{}` and wrote nothing although no call with that id was in flight", e.text),
                                ));
                            } else if answered && healthy {
                                viol.push((
                                    format!("C04:async:forward:{kindname}:failed:{}", e.class),
                                    format!("{who} failed with `{}` although its request reached the fake server, was answered with its own id and the connection stayed healthy (sentinel seen){clash_note}", e.text),
                                ));
                            } else if !clashes.is_empty() && !frames.is_empty() && h.trouble.is_none() && !answered {
                                // it returned before the server answered anything: nothing but the colliding forward happened
                                viol.push((
                                    format!("C04:async:forward:{kindname}:failed:{}", e.class),
                                    format!("{who} failed with `{}` while it was in flight and before the fake server had answered it{clash_note}", e.text),
                                ));
                            } else {
                                inc.push(format!("{who} failed with `{}` (answered: {answered}, healthy: {healthy})", e.text));
                            }
                        }
                        Some(Res::NotifyOk) => {
                            anomalies = true;
                            viol.push((format!("C04:async:forward:{kindname}:returned-no-response"), format!("{who} returned Ok(None) although the message was not a notify")));
                        }
                        None => {
                            anomalies = true;
                            let id = o.id.unwrap_or(u64::MAX);
                            let sent_with_id = h.sent.iter().filter(|s| s.0 == id).count();
                            let received = h.events.iter().filter(|e| e.0 == P_RECEIVED && e.1 == id).count();
                            let delivered = h.events.iter().filter(|e| e.0 == P_BEFORE_DELIVER && e.1 == id).count();
                            if answered && h.sentinel_seen && received >= sent_with_id && delivered == 0 {
                                viol.push((
                                    format!("C04:async:forward:{kindname}:response-consumed-but-not-delivered"),
                                    format!("{who}: the reader consumed all {sent_with_id} frame(s) sent with its id without reaching the deliver point, the call cannot receive its response{clash_note}"),
                                ));
                            } else if answered && !clashes.is_empty() && delivered > 0 {
                                // its response was handed to somebody: who returned its token?
                                let thief = h.outs.iter().enumerate().find(|(j, r)| *j != i && matches!(r, Some(Res::Body { body, .. }) if returned_tok(body).as_deref() == Some(o.tok.as_str())));
                                match thief {
                                    Some((j, _)) => viol.push((format!("C04:async:forward:{kindname}:response-went-to-another-call"), format!("{who} never returned; its response was returned by {}{clash_note}", h.ops[j].desc))),
                                    None => inc.push(format!("{who} produced no result inside the harness bound although the reader delivered {delivered} frame(s) with its id (stall {stall_ms} ms){clash_note}")),
                                }
                            } else {
                                inc.push(format!("{who} produced no result inside the harness bound (answered: {answered}, stall {stall_ms} ms){clash_note}"));
                            }
                        }
                    }
                }
                OpClass::Clash => {
                    if !frames.is_empty() {
                        anomalies = true;
                        viol.push((
                            "C04:async:forward:colliding-id:written-to-wire".into(),
                            format!("{who} reuses the id of the in-flight {}; it was not refused before writing: {} frame(s) with that id and its token reached the fake server; its outcome: {}", o.target.map(|t| h.ops[t].desc.clone()).unwrap_or_default(), frames.len(), show_res(out)),
                        ));
                    }
                    match out {
                        Some(Res::Err(e)) => {
                            cnt("forward_scn_colliding_forward_refused");
                            cnt(&format!("forward_scn_colliding_forward_refused_with_{}", e.class.replace('.', "_")));
                        }
                        Some(Res::Body { hdr, body }) => {
                            anomalies = true;
                            viol.push((
                                "C04:async:forward:colliding-id:accepted".into(),
                                format!("{who} reuses the id of the in-flight {} and returned a response: header {hdr:?} body {body}, which belongs to {}", o.target.map(|t| h.ops[t].desc.clone()).unwrap_or_default(), owner_of(body)),
                            ));
                        }
                        Some(Res::NotifyOk) => {
                            anomalies = true;
                            viol.push(("C04:async:forward:colliding-id:returned-ok-none".into(), format!("{who} reuses an in-flight id, is not a notify, and returned Ok(None)")));
                        }
                        None => {
                            anomalies = true;
                            if frames.is_empty() {
                                inc.push(format!("{who} (colliding forward) neither returned nor wrote inside the harness bound (stall {stall_ms} ms)"));
                            }
                        }
                    }
                }
                OpClass::ClashNotify => match out {
                    Some(Res::NotifyOk) if frames.len() == 1 && frames[0].notify == 1 => cnt("forward_scn_notify_forward_with_inflight_id_written"),
                    other => {
                        anomalies = true;
                        inc.push(format!("{who}: notify forward ended with {} and {} frame(s) on the wire", show_res(other), frames.len()));
                    }
                },
            }
        }
        if let Some(p) = h.pending_after {
            if p != 0 {
                // evidence only: C04 is about correlation, not about leaks
                cnt("forward_scn_pending_entries_left_after_scenario");
            }
        }
        if !h.sentinel_seen && h.trouble.is_none() && viol.is_empty() {
            inc.push(format!("forward scenario: sentinel frame not seen by the client's reader within 10 s (stall {stall_ms} ms)"));
            anomalies = true;
        }
        v.violations = viol;
        v.inconclusive = inc;
        v.anomalies = anomalies;
        v
    }

    fn show_res(o: &Option<Res>) -> String {
        match o {
            None => "no result".into(),
            Some(Res::Body { hdr, body }) => format!("header {hdr:?} body {body}"),
            Some(Res::Err(e)) => format!("error `{}`", e.text),
            Some(Res::NotifyOk) => "Ok(None)".into(),
        }
    }

    fn random_fscn(index: u64, rng: &mut Rng) -> FScn {
        let n_warm = 1 + rng.usize_below(3);
        let base_max = if rng.chance(1, 5) { 12 } else { 5 };
        let n_base = 1 + rng.usize_below(base_max);
        let base_apis: Vec<Api> = (0..n_base).map(|_| *rng.pick(&[Api::Json, Api::JsonT, Api::Msg])).collect();
        let free_id = |rng: &mut Rng| match rng.below(8) {
            0 => FId::Zero,
            1 | 2 | 3 => FId::Past(rng.usize_below(n_warm)),
            _ => FId::Fresh,
        };
        let n_a = rng.usize_below(4);
        let wave_a: Vec<FOp> = (0..n_a).map(|_| FOp { fid: free_id(rng), with_timeout: rng.coin(), notify: false }).collect();
        let mut wave_b: Vec<FOp> = vec![];
        let clash_max = if rng.chance(1, 4) { 6 } else { 3 };
        let n_clash = 1 + rng.usize_below(clash_max);
        for _ in 0..n_clash {
            let fid = if n_a > 0 && rng.chance(1, 4) { FId::CollideFwd(rng.usize_below(n_a)) } else { FId::Collide(rng.usize_below(n_base)) };
            wave_b.push(FOp { fid, with_timeout: rng.coin(), notify: rng.chance(1, 8) });
        }
        for _ in 0..rng.usize_below(4) {
            wave_b.push(FOp { fid: free_id(rng), with_timeout: rng.coin(), notify: false });
        }
        rng.shuffle(&mut wave_b);
        let n_post = 1 + rng.usize_below(4);
        let post: Vec<FOp> = (0..n_post).map(|_| FOp { fid: if rng.chance(3, 4) { FId::Done(rng.usize_below(64)) } else { FId::Fresh }, with_timeout: rng.coin(), notify: false }).collect();
        FScn { index, n_warm, base_apis, wave_a, wave_b, post, extras: rng.coin(), wmode: rng.below(3) as u8, salt: rng.next_u64(), delays: rng.chance(3, 4) }
    }

    // ------------------------------------------------------------------ scenario generators

    fn next_permutation(p: &mut [usize]) -> bool {
        let n = p.len();
        if n < 2 {
            return false;
        }
        let mut i = n - 1;
        while i > 0 && p[i - 1] >= p[i] {
            i -= 1;
        }
        if i == 0 {
            return false;
        }
        let mut j = n - 1;
        while p[j] <= p[i - 1] {
            j -= 1;
        }
        p.swap(i - 1, j);
        p[i..].reverse();
        true
    }

    /// Insert hostile extras into a reply order (a list of Resp steps).
    fn add_extras(steps: &mut Vec<Step>, kind: Kind, call_slots: &[usize], count: usize, rng: &mut Rng) {
        for _ in 0..count {
            let pos_of = |steps: &Vec<Step>, s: usize| steps.iter().position(|x| *x == Step::Resp(s)).unwrap_or(0);
            let choice = rng.below(if kind == Kind::W { 10 } else { 6 });
            match choice {
                0 | 1 | 2 if !call_slots.is_empty() => {
                    let s = *rng.pick(call_slots);
                    let p = pos_of(steps, s);
                    let at = p + 1 + rng.usize_below(steps.len() - p);
                    steps.insert(at, Step::Dup(s));
                }
                3..=5 | 0..=2 => {
                    let u = match rng.below(6) {
                        0 => Unk::Zero,
                        1 => Unk::Huge(rng.below(1 << 20) as u32),
                        2 | 3 => Unk::Future(rng.below(3) as u8),
                        4 if !call_slots.is_empty() => Unk::Alias32(*rng.pick(call_slots)),
                        _ => Unk::Past,
                    };
                    let at = rng.usize_below(steps.len() + 1);
                    steps.insert(at, Step::Unknown(u));
                }
                6 | 7 | 8 if !call_slots.is_empty() => {
                    // in flight: before the response of that slot
                    let s = *rng.pick(call_slots);
                    let p = pos_of(steps, s);
                    let at = rng.usize_below(p + 1);
                    steps.insert(at, Step::Notify(Some(s)));
                }
                _ => {
                    if !call_slots.is_empty() && rng.coin() {
                        // id no longer in flight
                        let s = *rng.pick(call_slots);
                        let p = pos_of(steps, s);
                        let at = p + 1 + rng.usize_below(steps.len() - p);
                        steps.insert(at, Step::Notify(Some(s)));
                    } else {
                        let at = rng.usize_below(steps.len() + 1);
                        steps.insert(at, Step::Notify(None));
                    }
                }
            }
        }
    }

    fn blocking_batch_cap() -> usize {
        // the blocking client's batch runs min(n, clamp(4 * parallelism, 1, 64)) workers; with more requests
        // than workers a collect-all server would wait for requests that are only sent after replies
        let p = std::thread::available_parallelism().map(|c| c.get()).unwrap_or(1);
        p.saturating_mul(4).clamp(1, 64)
    }

    fn apis_for(mode: Mode, n: usize, with_notify: bool, rng: &mut Rng) -> Vec<Api> {
        (0..n)
            .map(|_| match mode {
                Mode::Batch => Api::JsonT,
                Mode::Calls => match rng.below(if with_notify { 8 } else { 6 }) {
                    0 | 1 => Api::Json,
                    2 | 3 => Api::JsonT,
                    4 | 5 => Api::Msg,
                    _ => Api::Notify,
                },
            })
            .collect()
    }

    fn random_scn(index: u64, rng: &mut Rng, force_kind: Option<Kind>) -> Scn {
        let kind = force_kind.unwrap_or(*rng.pick(&[Kind::B, Kind::A, Kind::W]));
        let mode = if rng.chance(1, 3) { Mode::Batch } else { Mode::Calls };
        let mut n = match rng.below(10) {
            0..=3 => 2 + rng.usize_below(7),
            4..=6 => 9 + rng.usize_below(24),
            7 | 8 => 33 + rng.usize_below(32),
            _ => MAX_N,
        };
        if kind == Kind::B && mode == Mode::Batch {
            n = n.min(blocking_batch_cap());
        }
        let mut apis = apis_for(mode, n, true, rng);
        if !apis.iter().any(|a| *a != Api::Notify) {
            apis[0] = Api::JsonT;
        }
        let call_slots: Vec<usize> = (0..n).filter(|i| apis[*i] != Api::Notify).collect();
        let mut order = call_slots.clone();
        rng.shuffle(&mut order);
        let mut steps: Vec<Step> = order.into_iter().map(Step::Resp).collect();
        let extras = match rng.below(4) {
            0 => 0,
            1 => 1 + rng.usize_below(3),
            _ => 1 + rng.usize_below(n.min(24)),
        };
        add_extras(&mut steps, kind, &call_slots, extras, rng);
        Scn { family: "random", index, kind, mode, n, eager: rng.chance(2, 5), arrival: None, steps, apis, wmode: rng.below(3) as u8, salt: rng.next_u64(), delays: rng.chance(4, 5), sub: Sub::Default }
    }

    /// Sizes above the blocking client's batch worker pool (64): more requests than workers, so every worker
    /// handles several requests one after the other.
    const BIG_BATCH_SIZES: [usize; 8] = [65, 66, 70, 100, 128, 129, 200, 257];
    const BIG_BATCH_MAX: usize = 300;

    /// A batch call with more requests than the blocking client's worker pool can have in flight. The blocking
    /// client is always served arrival-driven (a collect-all server would deadlock against the pool); the async
    /// and the WebSocket client (no pool) are served collect-all with a scripted order, or arrival-driven.
    fn bigbatch_scn(index: u64, kind: Kind, n: usize, rng: &mut Rng) -> Scn {
        let apis = vec![Api::JsonT; n];
        let collect_all = kind != Kind::B && rng.coin();
        let (arrival, steps, eager) = if collect_all {
            let slots: Vec<usize> = (0..n).collect();
            let mut order = slots.clone();
            rng.shuffle(&mut order);
            let mut steps: Vec<Step> = order.into_iter().map(Step::Resp).collect();
            let extras = rng.usize_below(12);
            add_extras(&mut steps, kind, &slots, extras, rng);
            (None, steps, false)
        } else {
            (Some(*rng.pick(&[1usize, 2, 3, 4, 8, 16, 24, 48])), vec![], true)
        };
        Scn { family: "bigbatch", index, kind, mode: Mode::Batch, n, eager, arrival, steps, apis, wmode: rng.below(3) as u8, salt: rng.next_u64(), delays: rng.chance(2, 3), sub: Sub::Default }
    }

    // ------------------------------------------------------------------ stderr silencing

    /// The library prints one line per dropped unknown-id frame; tens of thousands of them are scripted.
    struct StderrSilencer {
        saved: i32,
    }
    impl StderrSilencer {
        fn new() -> StderrSilencer {
            unsafe {
                let saved = libc::dup(2);
                let null = libc::open(c"/dev/null".as_ptr(), libc::O_WRONLY);
                if saved >= 0 && null >= 0 {
                    libc::dup2(null, 2);
                }
                if null >= 0 {
                    libc::close(null);
                }
                StderrSilencer { saved }
            }
        }
    }
    impl Drop for StderrSilencer {
        fn drop(&mut self) {
            unsafe {
                if self.saved >= 0 {
                    libc::dup2(self.saved, 2);
                    libc::close(self.saved);
                }
            }
        }
    }

    // ------------------------------------------------------------------ the stage

    struct Stage<'a> {
        rep: Report,
        ctx: Ctx<'a>,
        conns: HashMap<(Kind, u8), Conn>,
        hb: Heartbeat,
        il_full: HashSet<u64>,
        il_caller: HashSet<u64>,
        il_by_kind: HashMap<Kind, HashSet<u64>>,
        scripts: HashSet<u64>,
        timeouts: u64,
        connect_failures: u64,
        deadline: Instant,
        stop: Option<String>,
        seed: u64,
        max_scn_ms: u64,
        /// replay: (family, index) of the one scenario to run
        only: Option<(&'static str, u64)>,
        /// dedicated AsyncClient connection of the forward scenarios (they reuse completed ids on purpose)
        fwd_conn: Option<Conn>,
        fwd_anomalies: u64,
        fwd_enough: bool,
        /// dedicated AsyncClient connection of the reuse-window cases (c04_window.rs)
        win_conn: Option<Conn>,
        win_anomalies: u64,
    }

    impl<'a> Stage<'a> {
        /// Run and judge one scenario (in replay mode: only the recorded one, many times with fresh delay
        /// salts). Returns false when the stage must stop.
        fn exec(&mut self, scn: &Scn) -> bool {
            match self.only {
                None => self.exec_one(scn),
                Some((family, index)) if family == scn.family && index == scn.index => {
                    let mut ok = self.exec_one(scn);
                    for r in 1..400u64 {
                        if !ok {
                            break;
                        }
                        let mut again = scn.clone();
                        again.salt = mix(scn.salt ^ r);
                        again.delays = true;
                        ok = self.exec_one(&again);
                    }
                    false
                }
                Some(_) => true,
            }
        }

        /// Run and judge one forward scenario. Returns false when the stage must stop.
        fn exec_fwd(&mut self, fs: &FScn) -> bool {
            match self.only {
                None => self.exec_fwd_one(fs),
                Some(("forward", index)) if index == fs.index => {
                    let mut ok = self.exec_fwd_one(fs);
                    for r in 1..400u64 {
                        if !ok {
                            break;
                        }
                        let mut again = fs.clone();
                        again.salt = mix(fs.salt ^ r);
                        again.delays = true;
                        ok = self.exec_fwd_one(&again);
                    }
                    false
                }
                Some(_) => true,
            }
        }

        fn exec_fwd_one(&mut self, fs: &FScn) -> bool {
            if self.stop.is_some() {
                return false;
            }
            if Instant::now() >= self.deadline {
                self.stop = Some("stage time budget used up".into());
                return false;
            }
            if self.fwd_conn.as_ref().map(|c| c.scenarios >= 200).unwrap_or(false) {
                drop_conn(self.fwd_conn.take().unwrap(), self.ctx.rt);
                self.rep.count("connections_closed_after_reuse", 1);
            }
            if self.fwd_conn.is_none() {
                match connect_retry(Kind::A, self.ctx.rt) {
                    Ok(c) => {
                        self.rep.count("connections_async_forward", 1);
                        self.fwd_conn = Some(c);
                    }
                    Err(e) => {
                        self.connect_failures += 1;
                        self.rep.inconclusive(format!("could not set up an async connection for the forward scenarios: {e}"));
                        if self.connect_failures >= 3 {
                            self.stop = Some("repeated connection set-up failures".into());
                        }
                        return self.stop.is_none();
                    }
                }
            }
            let mut conn = self.fwd_conn.take().unwrap();
            let t0 = Instant::now();
            self.hb.reset();
            let h = run_fwd(&mut conn, &mut self.ctx, fs);
            let stall = self.hb.max_gap_ms();
            self.max_scn_ms = self.max_scn_ms.max(t0.elapsed().as_millis() as u64);
            let v = judge_fwd(&h, stall);

            let rep = &mut self.rep;
            rep.eval();
            rep.count("scenarios_family_forward", 1);
            rep.count("forward_scn_request_frames_seen_by_fake_server", h.wire.len() as u64);
            rep.count("forward_scn_frames_sent_by_fake_server", h.sent.len() as u64 + 1);
            rep.count("forward_scn_forwards_issued", h.ops.iter().filter(|o| o.wave >= 2).count() as u64);
            rep.count("forward_scn_forwards_reusing_inflight_id", h.ops.iter().filter(|o| o.class == OpClass::Clash).count() as u64);
            rep.count("forward_scn_forwards_reusing_inflight_forward_id", h.ops.iter().filter(|o| o.class == OpClass::Clash && o.target.map(|t| h.ops[t].wave == 2).unwrap_or(false)).count() as u64);
            rep.count("probe_events_recorded", h.events.len() as u64);
            for (k, n) in &v.counts {
                rep.count(k, *n);
            }
            let op_of_id: HashMap<u64, usize> = h.ops.iter().enumerate().rev().filter_map(|(i, o)| Some((o.id?, i))).collect();
            let rel: Vec<(u8, u64)> = h.events.iter().map(|e| (e.0, op_of_id.get(&e.1).map(|o| *o as u64).unwrap_or(if e.1 >= SENT_BASE { 10_000 } else { 20_000 }))).collect();
            let full = hash_of(&rel);
            self.il_full.insert(full);
            self.il_by_kind.entry(Kind::A).or_default().insert(full);
            self.scripts.insert(hash_of(&("forward", fs.identity())));
            rep.distinct(&("forward-script", fs.identity()));
            rep.distinct(&("forward-interleaving", full));
            if rep.samples.len() < rep.max_samples && fs.index % 97 == 5 {
                rep.sample(json!({
                    "scenario": fs.to_json(self.seed),
                    "ops": h.ops.iter().enumerate().map(|(i, o)| json!({"op": i, "what": o.desc, "id": o.id, "frames_on_wire": h.wire.iter().filter(|w| w.op == Some(i)).count(), "outcome": show_res(&h.outs[i])})).collect::<Vec<_>>(),
                }));
            }
            for (sig, detail) in v.violations {
                let detail = format!("[forward #{}] {detail}", fs.index);
                self.rep.violation(sig, detail, fs.to_json(self.seed));
            }
            for i in v.inconclusive {
                self.rep.inconclusive(i);
            }
            if v.anomalies || matches!(conn.srv, Srv::Closed) {
                self.rep.count("connections_abandoned_after_anomaly", 1);
                drop_conn(conn, self.ctx.rt);
                self.fwd_anomalies += 1;
            } else {
                self.fwd_conn = Some(conn);
            }
            if self.fwd_anomalies >= 6 {
                // enough witnesses; every further anomalous scenario may cost a full window
                self.fwd_enough = true;
            }
            if self.rep.violations.len() >= 12 {
                self.stop = Some("twelve distinct violations recorded; stopping early".into());
            }
            self.stop.is_none() && !self.fwd_enough
        }

        fn exec_one(&mut self, scn: &Scn) -> bool {
            if self.stop.is_some() {
                return false;
            }
            if Instant::now() >= self.deadline {
                self.stop = Some("stage time budget used up".into());
                return false;
            }
            // connection: reuse, replace every 300 scenarios
            let ckey = (scn.kind, scn.sub.conn_class());
            let reuse = self.conns.get(&ckey).map(|c| c.scenarios < 300).unwrap_or(false);
            if !reuse {
                if let Some(old) = self.conns.remove(&ckey) {
                    self.rep.count("connections_closed_after_reuse", 1);
                    drop_conn(old, self.ctx.rt);
                }
                match connect_retry_opt(scn.kind, self.ctx.rt, ckey.1 == 0) {
                    Ok(c) => {
                        self.rep.count(&format!("connections_{}{}", scn.kind.name(), if ckey.1 == 0 { "" } else { "_without_subscriber" }), 1);
                        self.conns.insert(ckey, c);
                    }
                    Err(e) => {
                        self.connect_failures += 1;
                        self.rep.inconclusive(format!("could not set up a {} connection: {e}", scn.kind.name()));
                        if self.connect_failures >= 3 {
                            self.stop = Some("repeated connection set-up failures".into());
                        }
                        return self.stop.is_none();
                    }
                }
            }
            let mut conn = self.conns.remove(&ckey).unwrap();
            if let Err(e) = nosub::prepare_sub(&mut conn, scn.sub) {
                self.rep.inconclusive(format!("could not put the WebSocket client into the `{}` state: {e}", scn.sub.state()));
                drop_conn(conn, self.ctx.rt);
                return true;
            }
            let t0 = Instant::now();
            self.hb.reset();
            let hist = run_scn(&mut conn, &mut self.ctx, scn);
            let stall = self.hb.max_gap_ms();
            self.max_scn_ms = self.max_scn_ms.max(t0.elapsed().as_millis() as u64);
            let v = judge(scn, &hist, stall);

            // evidence
            let rep = &mut self.rep;
            rep.eval();
            let k = scn.kind.name();
            rep.count(&format!("scenarios_{k}_{}", scn.mode.name()), 1);
            rep.count(&format!("scenarios_family_{}", scn.family), 1);
            rep.count("requests_seen_by_fake_server", hist.reqs.len() as u64);
            rep.count("calls_returned_own_response", v.ok_calls);
            rep.count("frames_sent_by_fake_server", hist.sent.len() as u64 + 1);
            if scn.sub != Sub::Default {
                let st = scn.sub.state().replace('-', "_");
                rep.count(&format!("nosub_scenarios_{k}_{st}"), 1);
                rep.count(&format!("nosub_calls_returned_own_response_{k}_{st}"), v.ok_calls);
                if v.tcp_push_taken > 0 {
                    rep.count(&format!("nosub_tcp_calls_that_returned_a_push_carrying_their_own_id_{k}"), v.tcp_push_taken);
                }
            }
            for s in &hist.sent {
                match s.step {
                    Step::Resp(_) => {}
                    Step::Dup(_) => rep.count("injected_duplicate_responses", 1),
                    Step::Unknown(Unk::Future(_)) => rep.count("injected_unknown_id_future", 1),
                    Step::Unknown(Unk::Past) => rep.count("injected_unknown_id_past", 1),
                    Step::Unknown(Unk::Alias32(_)) => rep.count("injected_unknown_id_aliasing_inflight_low32", 1),
                    Step::Unknown(_) => rep.count("injected_unknown_id_other", 1),
                    Step::Notify(_) | Step::NotifyZero if scn.sub != Sub::Default => {
                        let what = match s.step {
                            Step::NotifyZero => "id_zero",
                            Step::Notify(None) => "unknown_id",
                            _ if s.inflight => "inflight_id",
                            _ => "completed_id",
                        };
                        rep.count(&format!("nosub_pushes_sent_{}_{}_{what}", k, scn.sub.state().replace('-', "_")), 1);
                    }
                    Step::Notify(_) if s.inflight => rep.count("injected_notify_reusing_inflight_id", 1),
                    Step::Notify(_) | Step::NotifyZero => rep.count("injected_notify_other_id", 1),
                }
            }
            rep.count("notifies_received_by_subscriber", hist.sub_items.len() as u64);
            rep.count("client_notify_requests_seen", hist.reqs.iter().filter(|r| r.notify != 0).count() as u64);
            rep.count("probe_events_recorded", hist.events.len() as u64);
            if scn.eager {
                rep.count("scenarios_eager_replies", 1);
                // did the reader really overlap callers that were still registering / writing?
                let first_recv = hist.events.iter().position(|e| e.0 == P_RECEIVED);
                let last_caller = hist.events.iter().rposition(|e| e.0 <= P_WRITTEN);
                if let (Some(a), Some(b)) = (first_recv, last_caller) {
                    if a < b {
                        rep.count("scenarios_reader_overlapping_callers", 1);
                    }
                }
            }
            if hist.partial {
                rep.count("scenarios_partial_request_wave", 1);
            }
            if scn.n > 6 {
                rep.count("scenarios_n_above_6", 1);
            }
            let prev_max = rep.get_count("max_concurrent_calls");
            if scn.n as u64 > prev_max && scn.family != "bigbatch" {
                rep.set("max_concurrent_calls", json!(scn.n));
            }
            let (full, caller) = interleaving_hashes(&hist);
            self.il_full.insert(full);
            self.il_caller.insert(caller);
            self.il_by_kind.entry(scn.kind).or_default().insert(full);
            self.scripts.insert(hash_of(&scn.identity()));
            rep.distinct(&("script", scn.identity()));
            rep.distinct(&("interleaving", scn.kind, full));
            if rep.samples.len() < rep.max_samples && (scn.index % 977 == 3 || (scn.family == "random" && rep.samples.len() < 3 && hist.sent.len() > scn.n)) {
                rep.sample(json!({
                    "scenario": scn.to_json(self.seed),
                    "request_ids_in_arrival_order": hist.reqs.iter().map(|r| json!([r.slot, r.id])).collect::<Vec<_>>(),
                    "frames_sent": show_sent(&hist),
                    "probe_events_first_40": hist.events.iter().take(40).map(|e| format!("{}:{}", P_NAMES[e.0 as usize], if e.1 >= SENT_BASE { "sentinel".to_string() } else { e.1.to_string() })).collect::<Vec<_>>(),
                    "calls_ok": v.ok_calls,
                }));
            }
            for (sig, detail) in v.violations {
                let detail = format!("[{} #{} {k}/{} n={} eager={}] {detail}", scn.family, scn.index, scn.mode.name(), scn.n, scn.eager);
                self.rep.violation(sig, detail, scn.to_json(self.seed));
            }
            for i in v.inconclusive {
                self.rep.inconclusive(i);
            }
            self.timeouts += v.timeouts;
            if v.anomalies || matches!(conn.srv, Srv::Closed) {
                self.rep.count("connections_abandoned_after_anomaly", 1);
                drop_conn(conn, self.ctx.rt);
            } else {
                self.conns.insert(ckey, conn);
            }
            if self.timeouts >= 3 {
                self.stop = Some("three calls did not return inside the window; stopping early".into());
            }
            if self.rep.violations.len() >= 12 {
                self.stop = Some("twelve distinct violations recorded; stopping early".into());
            }
            self.stop.is_none()
        }
    }

    // helper files of this module (children of `imp`, so they see its private items). A `#[path]` inside an inline
    // module resolves relative to the non-existent directory src/c04/imp/, hence `include!`.
    mod window {
        include!("c04_window.rs");
    }
    mod nosub {
        include!("c04_nosub.rs");
    }
    mod runs {
        include!("c04_runs.rs");
    }
    mod cut {
        include!("c04_cut.rs");
    }
    mod trickle {
        include!("c04_trickle.rs");
    }
    mod hostile {
        include!("c04_hostile.rs");
    }
    mod history {
        include!("c04_history.rs");
    }

    pub fn run(args: &Args) -> Report {
        let rep = Report::new(
            args,
            "c04-multiplex",
            "fake server (oracle codec) answers N concurrent calls issued from clones of one client in a scripted order: all 720 \
             permutations for N=6 on each of blocking/async/WebSocket client, for plain calls and for batch_json; random orders up to \
             N=64 with unknown-id (zero, huge, future, past) frames, duplicated responses, eager replies, split/coalesced writes and, \
             WebSocket only, notify frames reusing in-flight ids with a subscriber attached; seeded delays at the verif-hooks probes; \
             oracle: returned token/id == own, batch positional, ids distinct per connection, subscriber gets exactly the notify \
             frames in order; batches of 65..300 requests (more than the blocking client's 64 batch workers) against an              arrival-driven server, positional alignment and result count; AsyncClient::forward_message* with caller-chosen ids:              an id equal to an in-flight id is refused, writes nothing and leaves the in-flight call its own response, unused and              completed ids work, in-flight ids on the wire stay distinct; \
             reuse-window: the AsyncClient reader is parked (probe gate) between taking a call's pending entry and handing the response over, a second \
             forward registers the SAME id in that window: both return their own tokens, bystanders too (control: sequential reuse); \
             no-subscriber: WebSocket client never subscribed / unsubscribed / receiver dropped, pushes with in-flight ids, id 0, unknown ids before \
             the real responses must be dropped, every call returns its own response (TCP clients: what they return carries their own id); \
             unmatched-run: 16/17/40/200/1000 consecutive frames that match no pending call (future, past, huge ids, duplicates of delivered responses, notify frames, mixed) \
             before/between/after the responses of 1..8 calls in flight (calls and batch, all three clients): every call in flight and every later call on the \
             same connection returns its own response; batch-connection-loss: the fake server answers a non-prefix subset of a batch in any order, then closes \
             (FIN / RST / WebSocket close): every slot answered before the close holds its own token, every other slot an error, positions aligned; \
             trickle: 3..7 calls in flight per connection (many connections in parallel, all three clients), every response frame written in pieces cut inside the \
             header / at the boundaries / inside query and body with pauses of 1 ms .. 1.4 s between the pieces (stalls above 1.1 s inside one frame; WebSocket: \
             continuation fragments, pings between fragments, TCP-level cuts), bodies holding the image of a response frame for another in-flight id right after \
             a cut: every call returns exactly the response sent for its id (value / header, query and body bytes), no call fails while the peer never closed; \
             hostile-header: well-framed frames with unusual version / reserved / query_format / body_format / ec (only variants the public decoders accept) as \
             answers, unknown-id frames, duplicates and pushes (in-flight and unknown ids) while ordinary calls are in flight: a call whose own answer was ordinary \
             returns exactly it, a call addressed by an unusual frame returns an error or its own response, never another frame's content; \
             long-history: per client one connection through calls that timed out / were cancelled / failed locally with responses never, much later or twice, then \
             600 ordinary sequential and concurrent calls with 65 000 id-drawing notifies in between (ids across 2^8 and 2^16, all residues mod 64/128/256): every \
             answered call returns its own response, all ids distinct, a response the reader consumed without delivering is shown by probe events; \
             distinct = reply scripts + probe-order interleavings",
        );
        let rt = match tokio::runtime::Builder::new_multi_thread().worker_threads(4).enable_all().thread_name("c04-rt").build() {
            Ok(rt) => rt,
            Err(e) => {
                let mut rep = rep;
                rep.inconclusive(format!("tokio runtime: {e}"));
                return rep;
            }
        };
        let pool = Pool::new();
        let budget = if args.thorough() { Duration::from_secs(420) } else { Duration::from_secs(38) };
        let silencer = StderrSilencer::new();
        repe::verif_hooks::set_probe(Some(Arc::new(probe)));
        let _ = take_last_panic();

        let mut st = Stage {
            rep,
            ctx: Ctx { rt: &rt, pool: &pool, seed: args.seed, sentinel_ctr: 0, notify_seq: 0, nonce: args.seed.wrapping_mul(0x9E37_79B9_7F4A_7C15), fresh_ctr: 0 },
            conns: HashMap::new(),
            hb: Heartbeat::start(),
            il_full: HashSet::new(),
            il_caller: HashSet::new(),
            il_by_kind: HashMap::new(),
            scripts: HashSet::new(),
            timeouts: 0,
            connect_failures: 0,
            deadline: Instant::now() + budget,
            stop: None,
            seed: args.seed,
            max_scn_ms: 0,
            only: None,
            fwd_conn: None,
            fwd_anomalies: 0,
            fwd_enough: false,
            win_conn: None,
            win_anomalies: 0,
        };
        // --replay <file with the replay JSON of a violation>: regenerate the same scenarios from the seed and
        // execute only the recorded one, 400 times with different delay salts
        if let Some(path) = &args.replay {
            let v: Option<Value> = std::fs::read_to_string(path).ok().and_then(|t| serde_json::from_str(&t).ok());
            // the driver wraps the replay object of a violation: {property, tier, seed, stage, sig, detail, scenario: {..}}
            let v: Option<Value> = v.map(|v| match v.get("scenario") {
                Some(s) if s.get("family").is_some() => s.clone(),
                _ => v,
            });
            match v.as_ref().and_then(|v| Some((v.get("family")?.as_str()?.to_string(), v.get("index")?.as_u64()?, v.get("seed")?.as_u64()?))) {
                Some((fam, idx, seed)) if seed == args.seed => {
                    let fam = ["perm6", "perm6+extras", "random", "bigbatch", "forward", "reuse-window", "no-subscriber", "unmatched-run", "batch-connection-loss", "trickle", "hostile-header", "long-history"].into_iter().find(|f| *f == fam).unwrap_or("random");
                    st.only = Some((fam, idx));
                    st.rep.set("replay_of", json!({"family": fam, "index": idx}));
                }
                Some((_, _, seed)) => st.rep.inconclusive(format!("replay file was recorded with --seed {seed}; pass the same seed")),
                None => st.rep.inconclusive("replay file is not a C04 replay object {seed, family, index, ..}"),
            }
        }
        let mut rng = Rng::new(args.seed ^ 0xC04_C04);
        let mut index = 0u64;

        // replay of one recorded scenario family/index is done by re-running with the same seed: scenario
        // generation is a pure function of (seed, family, index)

        // (0a) batches larger than the blocking client's worker pool: positional alignment when a worker handles
        // several requests; the same sizes on the async and the WebSocket client
        // development stages: `--stage unmatched-run` / `--stage batch-connection-loss` run that one family alone, with a
        // ten times larger budget (many-seed soundness runs of the two families); `--stage main` runs everything
        let solo: Option<&str> = ["unmatched-run", "batch-connection-loss", "trickle", "hostile-header", "long-history"].into_iter().find(|f| *f == args.stage);
        if let Some(f) = solo {
            st.rep.set("solo_family", json!(f));
        }
        let t_family = Instant::now();
        if solo.is_none() {
            let mut r = Rng::new(args.seed ^ 0xB16_BA7C);
            let mut plan: Vec<(Kind, usize)> = vec![];
            let cap = blocking_batch_cap();
            for n in [cap.saturating_sub(1).max(2), cap] {
                plan.push((Kind::B, n)); // controls: at most as many requests as workers
            }
            for kind in [Kind::B, Kind::A, Kind::W] {
                for n in BIG_BATCH_SIZES {
                    plan.push((kind, n));
                }
            }
            let extra = args.budget(20, 240);
            for i in 0..extra {
                let kind = match i % 4 {
                    0 | 1 => Kind::B,
                    2 => Kind::A,
                    _ => Kind::W,
                };
                plan.push((kind, cap + 1 + r.usize_below(BIG_BATCH_MAX - cap)));
            }
            for (kind, n) in plan {
                index += 1;
                let scn = bigbatch_scn(index, kind, n, &mut r);
                if !st.exec(&scn) {
                    break;
                }
                if n > cap {
                    st.rep.count(&format!("batch_scenarios_above_blocking_pool_{}", kind.name()), 1);
                    let prev = st.rep.get_count("max_batch_requests");
                    if n as u64 > prev {
                        st.rep.set("max_batch_requests", json!(n));
                    }
                }
            }
        }

        // (0b) caller-chosen ids (AsyncClient::forward_message*): colliding with in-flight ids, unused, completed
        st.rep.set("wall_ms_family_bigbatch", json!(t_family.elapsed().as_millis() as u64));
        let t_family = Instant::now();
        if solo.is_none() {
            let mut r = Rng::new(args.seed ^ 0xF0_12AD);
            let n_fwd = args.budget(400, 6000);
            for _ in 0..n_fwd {
                index += 1;
                let fs = random_fscn(index, &mut r);
                if !st.exec_fwd(&fs) {
                    break;
                }
            }
            if let Some(c) = st.fwd_conn.take() {
                drop_conn(c, &rt);
            }
        }
        st.rep.set("wall_ms_family_forward", json!(t_family.elapsed().as_millis() as u64));

        // (0c) a caller-chosen id registered again while the reader is parked between match and deliver
        let t_family = Instant::now();
        if solo.is_none() {
            window::run_family(&mut st, args, &mut index);
        }
        st.rep.set("wall_ms_family_reuse_window", json!(t_family.elapsed().as_millis() as u64));

        // (0d) pushes (in-flight ids, id 0, unknown ids) while the client has no live notify subscriber
        let t_family = Instant::now();
        if solo.is_none() {
            nosub::run_family(&mut st, args, &mut index);
        }
        st.rep.set("wall_ms_family_no_subscriber", json!(t_family.elapsed().as_millis() as u64));

        // (0e) long runs (16 .. 1000 in a row) of frames that match no pending call, around the responses of calls in flight
        let t_family = Instant::now();
        if solo.is_none() || solo == Some("unmatched-run") {
            runs::run_family(&mut st, args, &mut index);
        }
        st.rep.set("wall_ms_family_unmatched_run", json!(t_family.elapsed().as_millis() as u64));

        // (0f) a batch whose connection dies after the server answered a non-prefix subset of it
        let t_family = Instant::now();
        if solo.is_none() || solo == Some("batch-connection-loss") {
            cut::run_family(&mut st, args, &mut index);
        }
        st.rep.set("wall_ms_family_batch_connection_loss", json!(t_family.elapsed().as_millis() as u64));

        // (0g) responses that arrive spread over time: every frame in pieces with pauses between them (WebSocket: continuation
        // fragments), frames for other in-flight ids inside response bodies; all connections of a round in parallel
        let t_family = Instant::now();
        if solo.is_none() || solo == Some("trickle") {
            trickle::run_family(&mut st, args, &mut index);
        }
        st.rep.set("wall_ms_family_trickle", json!(t_family.elapsed().as_millis() as u64));

        // (0h) well-framed frames with unusual header fields (version, reserved, formats, ec) among the answers, the unknown-id
        // frames, the duplicates and the pushes: they concern the call they are addressed to, or nobody
        let t_family = Instant::now();
        if solo.is_none() || solo == Some("hostile-header") {
            hostile::run_family(&mut st, args, &mut index);
        }
        st.rep.set("wall_ms_family_hostile_header", json!(t_family.elapsed().as_millis() as u64));

        // (0i) hundreds of ordinary calls on one connection after calls that timed out / were cancelled / failed locally and
        // whose responses never arrive, arrive much later or twice; id counter across 2^8 and 2^16
        let t_family = Instant::now();
        if solo.is_none() || solo == Some("long-history") {
            history::run_family(&mut st, args, &mut index);
        }
        st.rep.set("wall_ms_family_long_history", json!(t_family.elapsed().as_millis() as u64));

        // (a) exhaustive: every reply order for 6 concurrent calls, each client kind, calls and batch
        let reps = if solo.is_some() { 0 } else { args.budget(2, 20).max(1) };
        let mut perm_done: HashMap<String, u64> = HashMap::new();
        'outer: for rep_i in 0..reps {
            for kind in [Kind::B, Kind::A, Kind::W] {
                for mode in [Mode::Calls, Mode::Batch] {
                    let mut p: Vec<usize> = (0..6).collect();
                    let mut r = rng.fork(rep_i * 100 + kind as u64 * 10 + mode as u64);
                    loop {
                        index += 1;
                        let mut steps: Vec<Step> = p.iter().map(|s| Step::Resp(*s)).collect();
                        let apis = apis_for(mode, 6, false, &mut r);
                        let (eager, wmode) = if rep_i == 0 { (false, 0) } else { (r.chance(1, 3), r.below(3) as u8) };
                        if rep_i > 0 {
                            let extras = r.usize_below(4);
                            add_extras(&mut steps, kind, &[0, 1, 2, 3, 4, 5], extras, &mut r);
                        }
                        let scn = Scn { family: if rep_i == 0 { "perm6" } else { "perm6+extras" }, index, kind, mode, n: 6, eager, arrival: None, steps, apis, wmode, salt: r.next_u64(), delays: rep_i > 0 || r.coin(), sub: Sub::Default };
                        if !st.exec(&scn) {
                            break 'outer;
                        }
                        *perm_done.entry(format!("{}_{}", kind.name(), mode.name())).or_default() += 1;
                        if !next_permutation(&mut p) {
                            break;
                        }
                    }
                }
            }
        }
        let complete = solo.is_some() || (perm_done.len() == 6 && perm_done.values().all(|c| *c == 720 * reps));
        st.rep.set("perm6_orders_run_per_client_and_mode", json!(perm_done));
        st.rep.set("perm6_repetitions", json!(reps));
        st.rep.set("small_scope_exhaustive", json!(complete && solo.is_none()));
        st.rep.exhaustive = Some(false);

        // (b) random: N up to 64, hostile extras, eager replies
        let n_random = if solo.is_some() { 0 } else { args.budget(1500, 30000) };
        for i in 0..n_random {
            index += 1;
            let mut r = rng.fork(0xBEEF_0000 + i);
            let scn = random_scn(index, &mut r, None);
            if !st.exec(&scn) {
                break;
            }
        }

        repe::verif_hooks::set_probe(None);
        let replaying = st.only.is_some();
        let Stage { mut rep, conns, hb, il_full, il_caller, il_by_kind, scripts, stop, timeouts, max_scn_ms, .. } = st;
        for (_, c) in conns {
            drop_conn(c, &rt);
        }
        drop(silencer);
        rep.set("distinct_interleavings", json!(il_full.len()));
        rep.set("distinct_caller_side_interleavings", json!(il_caller.len()));
        rep.set("distinct_interleavings_by_client", json!(il_by_kind.iter().map(|(k, v)| (k.name().to_string(), v.len())).collect::<HashMap<_, _>>()));
        rep.set("distinct_reply_scripts", json!(scripts.len()));
        rep.set("probe_delays_applied", json!(DELAYS_APPLIED.load(Ordering::Relaxed)));
        rep.set("probe_hits", json!((1..=6).map(|i| (P_NAMES[i].to_string(), PROBE_HITS[i].load(Ordering::Relaxed))).collect::<HashMap<_, _>>()));
        rep.set("calls_timed_out", json!(timeouts));
        rep.set("slowest_scenario_ms", json!(max_scn_ms));
        rep.set("blocking_batch_worker_cap", json!(blocking_batch_cap()));
        rep.set("arrival_driven_reply_windows", json!(ARRIVAL_WINDOWS.load(Ordering::Relaxed)));
        rep.set("arrival_driven_windows_flushed_on_quiet", json!(ARRIVAL_QUIET_FLUSHES.load(Ordering::Relaxed)));
        rep.set("harness_bind_fallbacks_other_loopback_address", json!(BIND_FALLBACKS.load(Ordering::Relaxed)));
        rep.set("harness_connect_retries", json!(CONNECT_RETRIES.load(Ordering::Relaxed)));
        if let Some(p) = take_last_panic() {
            rep.set("last_panic_seen", json!(p));
        }
        drop(hb);
        if let Some(why) = &stop {
            rep.set("stopped_early", json!(why));
        }
        if replaying {
            // nothing more to say: the counters describe the repetitions of the one scenario
        } else if rep.violations.is_empty() {
            match &stop {
                // running out of time in the random part only shortens the sample
                Some(why) if why.contains("time budget") && complete => {}
                Some(why) => rep.inconclusive(format!("stage stopped early: {why}")),
                None if !complete => rep.inconclusive("the exhaustive N=6 part did not complete"),
                None => {}
            }
        }
        if rep.evaluations == 0 {
            rep.inconclusive("no scenario was executed");
        }
        // leave worker threads to die with the process; the runtime is shut down without waiting
        rt.shutdown_timeout(Duration::from_secs(2));
        rep
    }
}
