//! Independent REPE v1 frame codec written from the field table in docs/protocol.md,
//! using explicit shifts (no to_le_bytes / from_le_bytes), plus a sequential stream parser.
//!
//!  offset  size  field
//!  0       8     length          (48 + query_length + body_length)
//!  8       2     spec            (0x1507)
//!  10      1     version         (1)
//!  11      1     notify
//!  12      4     reserved
//!  16      8     id
//!  24      8     query_length
//!  32      8     body_length
//!  40      2     query_format
//!  42      2     body_format
//!  44      4     ec

pub const HDR: usize = 48;
pub const SPEC: u16 = 0x1507;

#[derive(Clone, Copy, Debug, PartialEq, Eq, Hash, Default)]
pub struct SpecHeader {
    pub length: u64,
    pub spec: u16,
    pub version: u8,
    pub notify: u8,
    pub reserved: u32,
    pub id: u64,
    pub query_length: u64,
    pub body_length: u64,
    pub query_format: u16,
    pub body_format: u16,
    pub ec: u32,
}

fn put(buf: &mut [u8], off: usize, width: usize, v: u64) {
    for i in 0..width {
        buf[off + i] = ((v >> (8 * i)) & 0xff) as u8;
    }
}

fn get(buf: &[u8], off: usize, width: usize) -> u64 {
    let mut v = 0u64;
    for i in 0..width {
        v |= (buf[off + i] as u64) << (8 * i);
    }
    v
}

impl SpecHeader {
    pub fn encode(&self) -> [u8; HDR] {
        let mut b = [0u8; HDR];
        put(&mut b, 0, 8, self.length);
        put(&mut b, 8, 2, self.spec as u64);
        put(&mut b, 10, 1, self.version as u64);
        put(&mut b, 11, 1, self.notify as u64);
        put(&mut b, 12, 4, self.reserved as u64);
        put(&mut b, 16, 8, self.id);
        put(&mut b, 24, 8, self.query_length);
        put(&mut b, 32, 8, self.body_length);
        put(&mut b, 40, 2, self.query_format as u64);
        put(&mut b, 42, 2, self.body_format as u64);
        put(&mut b, 44, 4, self.ec as u64);
        b
    }
    /// Field extraction only; no validation. `b.len() >= 48`.
    pub fn decode(b: &[u8]) -> SpecHeader {
        SpecHeader {
            length: get(b, 0, 8),
            spec: get(b, 8, 2) as u16,
            version: get(b, 10, 1) as u8,
            notify: get(b, 11, 1) as u8,
            reserved: get(b, 12, 4) as u32,
            id: get(b, 16, 8),
            query_length: get(b, 24, 8),
            body_length: get(b, 32, 8),
            query_format: get(b, 40, 2) as u16,
            body_format: get(b, 42, 2) as u16,
            ec: get(b, 44, 4) as u32,
        }
    }
    /// magic correct and length == 48 + q + b computed without wrap (128-bit).
    pub fn consistent(&self) -> bool {
        self.spec == SPEC
            && (self.length as u128) == 48u128 + self.query_length as u128 + self.body_length as u128
    }
    pub fn from_repe(h: &repe::Header) -> SpecHeader {
        SpecHeader {
            length: h.length,
            spec: h.spec,
            version: h.version,
            notify: h.notify,
            reserved: h.reserved,
            id: h.id,
            query_length: h.query_length,
            body_length: h.body_length,
            query_format: h.query_format,
            body_format: h.body_format,
            ec: h.ec,
        }
    }
    pub fn to_repe(&self) -> repe::Header {
        repe::Header {
            length: self.length,
            spec: self.spec,
            version: self.version,
            notify: self.notify,
            reserved: self.reserved,
            id: self.id,
            query_length: self.query_length,
            body_length: self.body_length,
            query_format: self.query_format,
            body_format: self.body_format,
            ec: self.ec,
        }
    }
}

/// Build a wire frame from the spec: header, then query, then body. Lengths are taken from
/// the payloads (the header's own length fields are overwritten).
pub fn frame(mut h: SpecHeader, q: &[u8], b: &[u8]) -> Vec<u8> {
    h.query_length = q.len() as u64;
    h.body_length = b.len() as u64;
    h.length = 48 + q.len() as u64 + b.len() as u64;
    let mut out = Vec::with_capacity(HDR + q.len() + b.len());
    out.extend_from_slice(&h.encode());
    out.extend_from_slice(q);
    out.extend_from_slice(b);
    out
}

/// The statement's validity predicate for a parse of `input`.
/// Ok((q_range, b_range)) iff magic ∧ length == 48+q+b (no wrap) ∧ input holds the whole frame
/// (∧ nothing trails when `exact`).
pub fn valid_parse(input: &[u8], exact: bool) -> Option<(SpecHeader, usize, usize)> {
    if input.len() < HDR {
        return None;
    }
    let h = SpecHeader::decode(input);
    if !h.consistent() {
        return None;
    }
    let total = h.length as u128;
    if (input.len() as u128) < total {
        return None;
    }
    if exact && (input.len() as u128) != total {
        return None;
    }
    Some((h, h.query_length as usize, h.body_length as usize))
}

#[derive(Clone, Debug)]
pub struct Frame {
    pub header: SpecHeader,
    pub query: Vec<u8>,
    pub body: Vec<u8>,
    /// offset of the frame start in the stream
    pub at: usize,
}

#[derive(Debug)]
pub enum StreamTail {
    /// stream ended exactly on a frame boundary
    Clean,
    /// stream ended inside a frame whose header (if complete) was consistent: `have` of `need` bytes
    Partial { at: usize, have: usize, need: Option<u128>, header: Option<SpecHeader> },
    /// a complete 48-byte header that is not a consistent REPE header: the stream is corrupt here
    Corrupt { at: usize, header: SpecHeader },
}

/// Sequentially parse a byte stream into frames purely from declared lengths.
pub fn parse_stream(bytes: &[u8]) -> (Vec<Frame>, StreamTail) {
    let mut frames = vec![];
    let mut at = 0usize;
    loop {
        let rest = &bytes[at..];
        if rest.is_empty() {
            return (frames, StreamTail::Clean);
        }
        if rest.len() < HDR {
            return (frames, StreamTail::Partial { at, have: rest.len(), need: None, header: None });
        }
        let h = SpecHeader::decode(rest);
        if !h.consistent() {
            return (frames, StreamTail::Corrupt { at, header: h });
        }
        let need = h.length as u128;
        if (rest.len() as u128) < need {
            return (
                frames,
                StreamTail::Partial { at, have: rest.len(), need: Some(need), header: Some(h) },
            );
        }
        let q0 = HDR;
        let q1 = q0 + h.query_length as usize;
        let b1 = q1 + h.body_length as usize;
        frames.push(Frame {
            header: h,
            query: rest[q0..q1].to_vec(),
            body: rest[q1..b1].to_vec(),
            at,
        });
        at += b1;
    }
}

/// Anchor the oracle on the Glaze-produced interop fixtures: every fixture must decode, via this
/// codec, to the values recorded in manifest.json. Returns Err(reason) if the oracle disagrees
/// with the fixtures (then checks depending on the oracle are inconclusive), Ok(n) otherwise.
pub fn anchor_on_fixtures(dir: &str) -> Result<usize, String> {
    let man = std::fs::read_to_string(format!("{dir}/manifest.json")).map_err(|e| e.to_string())?;
    let man: serde_json::Value = serde_json::from_str(&man).map_err(|e| e.to_string())?;
    let fx = man["fixtures"].as_array().ok_or("no fixtures")?;
    let mut n = 0;
    for f in fx {
        let name = f["name"].as_str().ok_or("name")?;
        let bytes = std::fs::read(format!("{dir}/{name}.repe")).map_err(|e| format!("{name}: {e}"))?;
        let (h, ql, bl) = valid_parse(&bytes, true).ok_or(format!("{name}: oracle rejects fixture"))?;
        let want = |k: &str| f[k].as_u64().unwrap_or(u64::MAX);
        if h.id != want("id")
            || h.notify as u64 != want("notify")
            || h.ec as u64 != want("ec")
            || h.query_format as u64 != want("query_format")
            || h.body_format as u64 != want("body_format")
            || h.query_length != want("query_length")
            || h.body_length != want("body_length")
            || h.length != want("length")
            || h.version != 1
        {
            return Err(format!("{name}: oracle decode differs from manifest: {h:?}"));
        }
        let q = &bytes[HDR..HDR + ql];
        if q != f["query"].as_str().unwrap_or("").as_bytes() {
            return Err(format!("{name}: query differs"));
        }
        let _ = bl;
        // re-encode must reproduce the fixture bytes
        let re = frame(h, q, &bytes[HDR + ql..]);
        if re != bytes {
            return Err(format!("{name}: oracle re-encode differs from fixture bytes"));
        }
        n += 1;
    }
    if n == 0 {
        return Err("no fixtures found".into());
    }
    Ok(n)
}
