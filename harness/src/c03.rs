//! C03 — every request gets exactly one matching response; notifies get none.
//!
//! One router with every built-in handler kind is served at once by `Server`, `AsyncServer`,
//! `WebSocketServer` (inline) and `WebSocketServer` with the same handlers marked off-reader, each of
//! them once plain and once behind a middleware (8 servers). Raw peers (oracle.rs frames over a plain
//! TCP stream / tokio_tungstenite binary messages) send generated pipelined sequences and read to
//! end-of-stream after half-closing / sending Close, so absence of frames is observed.
//!
//! Oracle: L1 structural (exactly one response per non-notify with the request's id and query bytes
//! unless handler-set, none per notify, handler/middleware invocation counts from a global log, inline
//! arrival order), L2 the statement's error classes derived from how each request was generated,
//! L3 differential of (ec, query_format, body_format, query, body) across the four dispatch paths.
//!
//! Two further workload classes run before the generated pipelines (same oracle, more observations):
//! * c03_rt.rs — blocking and async TCP servers with SHORT read timeouts (60/100/150 ms); the peer delivers a request
//!   in pieces with pauses shorter / several times longer than the timeout, and the bytes after the cut are themselves
//!   valid request frames (or garbage). No response and no handler run may exist for such a pseudo-frame; the
//!   connection may end at any pause (so trailing silence is never a violation there).
//! * error texts quoting long non-ASCII caller text (gen_::reflect_seqs): which request kinds the library quotes, and
//!   with how many bytes around the quote, is measured with a probe pipeline; then pipelines on all eight servers aim
//!   the error text at every byte alignment around 256/1024/4096/8192/65536 bytes with 2-, 3-, 4-byte and mixed
//!   characters, between ordinary requests. Signatures `C03:<server>:non-ascii-error-text:*`.
//!
//! * results that fail to serialize part-way (srv::Tout's Serialize impl fails after two fields / on a map with tuple keys /
//!   before closing / at once; gen_::ser_groups and, one success in six, the generated pipelines): typed handlers of every
//!   kind that returns the record (with_typed / with_typed_ctx / their _blocking forms / JsonTypedHandler / struct method,
//!   plain and middleware-wrapped) with JSON, BEVE, UTF-8 and raw response formats, notify 0/1, pipelined between ordinary
//!   requests on the same connection and next to bystander connections on the same servers. The failing request gets exactly
//!   one response with the failed-encode code; every other body is byte for byte (or at least decodes to) the handler's
//!   result. Signatures `C03:<server>:body-differs-after-failed-serialization:{same,other}-connection`.
//!
//! * WebSocket servers whose outbound path backs up (c03_bp.rs): `with_outbound_capacity` 1, 2, 3, 8 on current-thread and
//!   multi-thread runtimes; the raw peer writes the WHOLE pipeline (requests answered on the reader with small and
//!   10..400 KiB responses, every class of rejected request, notifies, off-reader requests) before it reads anything, or
//!   reads slowly, some with a small receive buffer, so that the connection's outbound queue is full when later
//!   requests are processed. Same oracle (the blocking and the async TCP server get the same pipeline as references);
//!   what the class adds is the arrival-order clause under back-pressure. Server names `ws-{inline,offreader}-outq<N>-{current,multi}-thread`.
//!
//! * handlers that re-enter the state they are served from (c03_re.rs, c03_srv.rs `reent_logic`): registry functions that
//!   read and write the registry they are registered in (and the one mounted next to it) while they run, a context-aware
//!   handler that calls into the server's peer registry, between ordinary requests and next to connections that read and
//!   write the same registry, on one server per dispatch path (two more on current-thread runtimes). Same oracle, plus the
//!   bounded-progress verdict `C03:no-response-within-progress-window:*` for a request that has neither a response nor an end of
//!   stream after both bounded waits.
//! * c03_rt.rs, second class: PACED whole frames on the read-timeout servers (see there), `C03:<transport>:read-timeout:paced:*`.
//!
//! `c01_net` (C01 "net" stage) lives in c03_c01net.rs.

#[path = "c03_cli.rs"]
mod cli;
#[path = "c03_gen.rs"]
mod gen_;
#[path = "c03_c01net.rs"]
mod c01net;
#[path = "c03_srv.rs"]
mod srv;
#[path = "c03_rt.rs"]
mod rt;
#[path = "c03_bp.rs"]
mod bp;
#[path = "c03_re.rs"]
mod re;

use crate::common::*;
use crate::oracle::Frame;
use cli::{ConnOut, End};
use gen_::{ExpBody, GenStats, Req};
use serde_json::{Value, json};
use srv::{EV_H, EV_MW, Srv, T, Tout, Tr};
use std::collections::HashMap;
use std::sync::Arc;
use std::time::Duration;

pub use c01net::c01_net;
pub use c01net::first_diff as first_diff_field;

type RespFields = (u32, u16, u16, Vec<u8>, Vec<u8>);

fn fields(f: &Frame) -> RespFields {
    (f.header.ec, f.header.query_format, f.header.body_format, f.query.clone(), f.body.clone())
}

fn decode_tout(body: &[u8], bf: u16) -> Option<Tout> {
    if bf == 1 { beve::from_slice::<Tout>(body).ok() } else { serde_json::from_slice::<Tout>(body).ok() }
}

struct SeqCtx<'a> {
    seed: u64,
    seq: u64,
    reqs: &'a [Req],
    stalled: bool,
    seen: &'a std::cell::RefCell<std::collections::HashSet<String>>,
    /// pipeline of the failed-serialization class: its role (None: every other class)
    ser: Option<gen_::SerRole>,
    /// class "re-entrant handlers": a request that has neither a response nor an end of stream after both bounded waits
    /// is judged (bounded progress) instead of being left inconclusive
    progress: bool,
}

impl SeqCtx<'_> {
    /// Record a violation; the (large) replay object is only built for a signature not seen before.
    fn viol(&self, rep: &mut Report, sig: String, detail: String, srv: &str, idx: Option<usize>) {
        let fresh = self.seen.borrow_mut().insert(sig.clone());
        let replay = if fresh { self.replay(srv, idx) } else { Value::Null };
        rep.violation(sig, detail, replay);
    }
    fn replay(&self, srv: &str, idx: Option<usize>) -> Value {
        json!({
            "seed": self.seed, "sequence": self.seq, "server": srv, "request_index": idx,
            "request_wire_hex": idx.map(|i| hex_trunc(&self.reqs[i].wire(), 4096)),
            "requests": self.reqs.iter().enumerate().map(|(i, r)| r.desc(i)).collect::<Vec<_>>(),
        })
    }
}

/// Judge one server's execution of one sequence. Returns, per request, the single response's fields
/// (for the differential) when exactly one response arrived.
fn check_server(rep: &mut Report, cx: &SeqCtx, srv: &Srv, out: &ConnOut) -> Vec<Option<RespFields>> {
    let name = srv.name();
    let reqs = cx.reqs;
    let mut single: Vec<Option<RespFields>> = vec![None; reqs.len()];
    if let End::Harness(e) = &out.end {
        rep.inconclusive(format!("{name}: sequence {} not executed: {e}", cx.seq));
        // events of a never-sent sequence cannot exist; nothing to take
        return single;
    }
    rep.count(&format!("frames_received.{name}"), out.frames.len() as u64);
    rep.count("response_bytes_received", out.bytes as u64);
    let ended = out.ended();
    // Bounded progress for a connection that never ends (class "re-entrant handlers" only): the peer wrote every request
    // completely, kept the connection open for WAIT_T without getting the expected responses, closed, waited EOS_T
    // again, and has neither the responses nor the end of the stream, on a machine that did not stall. The requests
    // without a response are judged below; a harness-side doubt keeps the verdict inconclusive as everywhere else.
    let n_expected = reqs.iter().filter(|r| r.notify != 1).count();
    let hang = cx.progress && !ended && out.end == End::Timeout && out.wrote_all && out.waited_out && !cx.stalled && out.frames.len() < n_expected;
    match &out.end {
        End::Eos => rep.count("end_of_stream_observed", 1),
        End::Unclean(_) => rep.count("end_of_stream_by_transport_error", 1),
        _ => {
            rep.count("end_of_stream_not_observed", 1);
            if !hang {
                let why = if cx.progress { format!(" [peer wrote everything: {}, waited for responses in vain: {}, {} of {n_expected} responses, machine stalled: {}]", out.wrote_all, out.waited_out, out.frames.len(), cx.stalled) } else { String::new() };
                rep.inconclusive(format!("{name}: no end of stream within {:?} after closing (sequence {}){why}", cli::EOS_T, cx.seq));
            }
        }
    }
    let mut first_hung: Option<usize> = None;
    // Bounded progress: the peer wrote every request completely and kept the connection open, yet the
    // expected responses only came out once it half-closed / sent Close. A client that waits for a response
    // before sending more would hang forever. Inline paths only (off-reader completion is not ordered); a
    // machine stall makes it inconclusive.
    {
        let expected = reqs.iter().filter(|r| r.notify != 1).count();
        let inline_srv = !name.contains("offreader");
        if out.waited_out && inline_srv && out.frames.len() >= expected && expected > 0 {
            if cx.stalled {
                rep.inconclusive(format!("{name}: responses late but the machine stalled (sequence {})", cx.seq));
            } else {
                cx.viol(
                    rep,
                    format!("C03:response-withheld-until-close:{name}"),
                    format!("{name}, sequence {}: all {} requests were written and the connection stayed open for {:?}, but the {} expected responses only arrived after the peer half-closed", cx.seq, reqs.len(), cli::WAIT_T, expected),
                    &name,
                    None,
                );
            }
        }
    }
    if let Some(g) = &out.garbage {
        cx.viol(rep, format!("C03:response-stream-not-frames:{name}"), format!("{name}, sequence {}: {g}", cx.seq), &name, None);
    }
    let by_id: HashMap<u64, usize> = reqs.iter().enumerate().map(|(i, r)| (r.id, i)).collect();
    let mut got: Vec<Vec<usize>> = vec![vec![]; reqs.len()]; // request -> positions of its responses
    for (pos, f) in out.frames.iter().enumerate() {
        match by_id.get(&f.header.id) {
            Some(&i) => got[i].push(pos),
            None => cx.viol(rep, 
                format!("C03:response-with-unknown-id:{name}"),
                format!("{name}, sequence {}: frame #{pos} carries id {} which no request of the connection used; header {:?}", cx.seq, f.header.id, f.header),
                &name, None,
            ),
        }
    }
    let mut last_inline_pos: Option<(usize, usize)> = None;
    let mut last_off_pos: Option<usize> = None;
    for (i, r) in reqs.iter().enumerate() {
        let e = &r.expect;
        let label = &e.label;
        let inline = !e.dispatched || r.target.map(|t| srv.inline_for(t)).unwrap_or(true);
        // ---- L1: response count
        if r.notify == 1 {
            if !got[i].is_empty() {
                let f = &out.frames[got[i][0]];
                cx.viol(rep, 
                    format!("C03:notify-got-response:{name}:{label}"),
                    format!("{name}, sequence {}, request #{i} (notify=1, {label}): {} response frame(s); first: ec={} body={:?}", cx.seq, got[i].len(), f.header.ec, String::from_utf8_lossy(&f.body[..f.body.len().min(80)])),
                    &name, Some(i),
                );
            } else if ended {
                rep.count("notify_silence_observed_to_end_of_stream", 1);
            }
        } else {
            match got[i].len() {
                0 => {
                    if hang {
                        let (entered, _) = (srv::ev_peek(srv.sid, EV_H, r.token), 0);
                        // the class of a request to a re-entrant kind / the registry they share; every other request counts as a bystander
                        let class = match r.target {
                            Some(t) if e.dispatched && (srv::REENT_FN_T.contains(&t) || matches!(t, T::RrConst | T::RrW)) => label.clone(),
                            _ => "other-request".to_string(),
                        };
                        let (sig, extra) = match first_hung {
                            None => (format!("C03:no-response-within-progress-window:{name}:{class}"), format!("its handler body was entered {entered} time(s)")),
                            Some(j) => (format!("C03:no-response-within-progress-window:{name}:pipelined-behind-unanswered-request"), format!("pipelined behind request #{j} ({}) which was never answered either", reqs[j].expect.label)),
                        };
                        first_hung.get_or_insert(i);
                        rep.count("requests_never_answered_within_progress_window", 1);
                        cx.viol(
                            rep,
                            sig,
                            format!(
                                "{name}, sequence {}, request #{i} (notify={}, {label}, variant {}): every request was written, the connection stayed open for {:?}, then the peer closed and waited {:?} more: no response and no end of stream ({} of {n_expected} responses received); {extra}",
                                cx.seq, r.notify, r.variant, cli::WAIT_T, cli::EOS_T, out.frames.len()
                            ),
                            &name,
                            Some(i),
                        );
                    } else if !ended {
                        // already inconclusive above
                    } else if inline || (!out.waited_out || !cx.stalled) {
                        // a request whose error text quotes long non-ASCII caller text, or one pipelined behind such a
                        // request that itself went unanswered, gets its own signature
                        let lost_behind = (0..i).rev().find(|&j| reqs[j].reflect.is_some() && reqs[j].notify != 1 && got[j].is_empty());
                        let sig = match (&r.reflect, lost_behind) {
                            (Some(rf), _) => format!("C03:{name}:non-ascii-error-text:no-response:{}", rf.kind),
                            (None, Some(_)) => format!("C03:{name}:non-ascii-error-text:following-request-unanswered"),
                            _ => format!("C03:missing-response:{name}:{label}"),
                        };
                        let extra = match (&r.reflect, lost_behind) {
                            (Some(rf), _) => format!("; the error text had to quote {} bytes of caller text ({} characters), aimed at an error text of {} bytes (landmark {})", rf.needle.len(), if rf.width == 0 { "mixed 1..4-byte".to_string() } else { format!("{}-byte", rf.width) }, rf.aimed_len, rf.boundary),
                            (None, Some(j)) => format!("; pipelined behind request #{j} ({}) which got no response either", reqs[j].expect.label),
                            _ => String::new(),
                        };
                        cx.viol(rep, 
                            sig,
                            format!("{name}, sequence {}, request #{i} (notify=0, {label}, {}): no response up to end of stream ({} frames received for {} expected; waited_out={}){extra}", cx.seq, if inline { "inline" } else { "off-reader" }, out.frames.len(), reqs.iter().filter(|r| r.notify != 1).count(), out.waited_out),
                            &name, Some(i),
                        );
                    } else {
                        rep.inconclusive(format!("{name}: off-reader response missing after a machine stall (sequence {})", cx.seq));
                    }
                }
                1 => {
                    rep.count("requests_with_exactly_one_response", 1);
                    single[i] = Some(fields(&out.frames[got[i][0]]));
                }
                n => cx.viol(rep, 
                    format!("C03:duplicate-response:{name}:{label}"),
                    format!("{name}, sequence {}, request #{i} ({label}): {n} responses with its id", cx.seq),
                    &name, Some(i),
                ),
            }
        }
        // ---- L1: invocation counts
        let (hcnt, hroute) = srv::ev_take(srv.sid, EV_H, r.token);
        let want_h = e.invoked as u32;
        if hcnt != want_h {
            let kind = if hcnt > want_h { "extra" } else { "missing" };
            if hcnt < want_h && hang {
                // the connection never got this far (or the notify hangs itself): reported through the unanswered requests
                rep.count("handler_runs_not_reached_on_a_connection_that_never_ended", 1);
            } else if hcnt < want_h && (!ended || (!inline && out.waited_out && cx.stalled)) {
                rep.inconclusive(format!("{name}: handler invocation not observed, stream not ended or machine stalled (sequence {})", cx.seq));
            } else {
                let what = if !e.dispatched && hcnt > 0 { "rejected-request-handler-invoked".to_string() } else { format!("handler-invocations-{kind}") };
                cx.viol(rep, 
                    format!("C03:{what}:{name}:{label}"),
                    format!("{name}, sequence {}, request #{i} ({label}, notify={}): handler body reached {hcnt} time(s), expected {want_h} (route id recorded {hroute})", cx.seq, r.notify),
                    &name, Some(i),
                );
            }
        } else if hcnt == 1 {
            rep.count("handler_invocations_matched", 1);
            if Some(hroute) != r.target.map(|t| t as u8) {
                cx.viol(rep, 
                    format!("C03:handler-route-mismatch:{name}:{label}"),
                    format!("{name}, sequence {}, request #{i}: token recorded by route id {hroute}, request addressed {:?}", cx.seq, r.target),
                    &name, Some(i),
                );
            }
        } else {
            rep.count("handler_non_invocations_matched", 1);
        }
        if srv.mw {
            let (mcnt, _) = srv::ev_take(srv.sid, EV_MW, r.id);
            let want_m = e.dispatched as u32;
            if mcnt != want_m {
                if mcnt < want_m && hang {
                } else if mcnt < want_m && (!ended || (!inline && out.waited_out && cx.stalled)) {
                    rep.inconclusive(format!("{name}: middleware invocation not observed (sequence {})", cx.seq));
                } else {
                    cx.viol(rep, 
                        format!("C03:dispatch-count:{name}:{label}"),
                        format!("{name}, sequence {}, request #{i} ({label}, notify={}): middleware (= dispatch) ran {mcnt} time(s), expected {want_m}", cx.seq, r.notify),
                        &name, Some(i),
                    );
                }
            } else {
                rep.count("dispatch_counts_matched_via_middleware", 1);
            }
        }
        if r.notify == 1 || got[i].len() != 1 {
            continue;
        }
        let pos = got[i][0];
        let f = &out.frames[pos];
        // ---- L1: query echo
        let own = match &e.body {
            ExpBody::Exact { query: Some(q), .. } => Some(q.clone()),
            _ => None,
        };
        let want_q = own.as_deref().unwrap_or(&r.query);
        if f.query != want_q {
            cx.viol(rep, 
                format!("C03:query-echo:{name}:{label}"),
                format!("{name}, sequence {}, request #{i} ({label}): response query {:?} (hex {}), expected {} {:?} (hex {})", cx.seq, String::from_utf8_lossy(&f.query), hex_trunc(&f.query, 64), if own.is_some() { "the handler-set" } else { "the request's" }, String::from_utf8_lossy(want_q), hex_trunc(want_q, 64)),
                &name, Some(i),
            );
        }
        // ---- L1: inline arrival order
        if inline {
            if let Some((pi, ppos)) = last_inline_pos {
                rep.count("inline_order_pairs_checked", 1);
                if pos < ppos {
                    cx.viol(rep, 
                        format!("C03:inline-order:{name}"),
                        format!("{name}, sequence {}: response to request #{i} is frame #{pos} but the response to the earlier inline request #{pi} is frame #{ppos}", cx.seq),
                        &name, Some(i),
                    );
                }
            }
            last_inline_pos = Some((i, pos));
        } else {
            // evidence that off-reader dispatch really ran concurrently (not a requirement)
            if let Some(pp) = last_off_pos {
                if pos < pp {
                    rep.count("info_offreader_responses_overtaking_earlier_ones", 1);
                }
            }
            last_off_pos = Some(pos);
        }
        // ---- L2: error class
        if !e.allowed.contains(&f.header.ec) {
            cx.viol(rep, 
                format!("C03:error-class:{name}:{label}:got-{}", f.header.ec),
                format!("{name}, sequence {}, request #{i} ({label}, variant {}): ec={} but the statement requires {:?}; body {:?}", cx.seq, r.variant, f.header.ec, e.allowed, String::from_utf8_lossy(&f.body[..f.body.len().min(120)])),
                &name, Some(i),
            );
            continue;
        }
        rep.count("error_class_matched", 1);
        if let Some(rf) = &r.reflect {
            observe_reflected(rep, cx, &name, i, rf, f);
        }
        // ---- L2: the handler's result
        // a request answered after a result failed to serialize: on this connection (an earlier request of the
        // pipeline) or, in the failed-serialization class, on another connection served at the same time
        let failed_before = reqs[..i].iter().rposition(|q| q.expect.label.starts_with("result-unserializable"));
        let after_failed: Option<&'static str> = match (failed_before, cx.ser) {
            (Some(_), _) => Some("same-connection"),
            (None, Some(gen_::SerRole::Bystander)) => Some("other-connection"),
            _ => None,
        };
        if e.label.starts_with("result-unserializable") {
            rep.count(&format!("ser.unserializable_results_answered_with_ec{}", f.header.ec), 1);
            rep.count(&format!("ser.unserializable_results_answered.{}", r.variant), 1);
        }
        let bad: Option<String> = match &e.body {
            ExpBody::Open => None,
            ExpBody::Tout(want, bf) => {
                if f.header.body_format != *bf {
                    Some(format!("body_format {} instead of {bf}", f.header.body_format))
                } else {
                    // byte for byte what the third-party codec makes of the record the handler returned; a body that
                    // differs in bytes but decodes to the same record is only counted
                    let canonical = r.target.and_then(|t| gen_::encode_result(t, want, *bf).ok());
                    if canonical.as_deref() == Some(&f.body[..]) {
                        rep.count("handler_results_byte_exact", 1);
                        None
                    } else {
                        match decode_tout(&f.body, *bf) {
                            Some(t) if &t == want => {
                                rep.count(&format!("info_result_bytes_not_the_third_party_encoding.{}", r.target.map(|t| t.path()).unwrap_or("")), 1);
                                None
                            }
                            other => Some(format!(
                                "body ({} bytes) {:?} decodes to {other:?}, handler returned {want:?}{}",
                                f.body.len(),
                                String::from_utf8_lossy(&f.body[..f.body.len().min(200)]),
                                match &canonical {
                                    Some(c) if f.body.len() > c.len() && f.body.ends_with(c) => format!("; the body is {} foreign bytes {:?} followed by exactly the expected {} bytes", f.body.len() - c.len(), String::from_utf8_lossy(&f.body[..(f.body.len() - c.len()).min(120)]), c.len()),
                                    Some(c) => format!("; expected the {} bytes {:?}", c.len(), String::from_utf8_lossy(&c[..c.len().min(120)])),
                                    None => String::new(),
                                }
                            )),
                        }
                    }
                }
            }
            ExpBody::Bytes(bf, want) => {
                if f.header.body_format != *bf || &f.body != want {
                    Some(format!("(body_format, body) = ({}, {}), the handler's result encodes to ({bf}, {})", f.header.body_format, hex_trunc(&f.body, 64), hex_trunc(want, 64)))
                } else {
                    rep.count("handler_results_byte_exact", 1);
                    None
                }
            }
            ExpBody::Json(want) => match serde_json::from_slice::<Value>(&f.body) {
                Ok(v) if &v == want && f.header.body_format == 2 => None,
                other => Some(format!("body_format {} body {other:?}, expected JSON {want}", f.header.body_format)),
            },
            ExpBody::U64s(want) => match beve::read_typed_slice::<u64>(&f.body) {
                Ok(v) if &v == want && f.header.body_format == 1 => None,
                other => Some(format!("body_format {} body {other:?}, expected BEVE u64 array {want:?}", f.header.body_format)),
            },
            ExpBody::Exact { qf, bf, body, .. } => {
                if (f.header.query_format, f.header.body_format) != (*qf, *bf) || &f.body != body {
                    Some(format!("(query_format, body_format, body) = ({}, {}, {}), handler returned ({qf}, {bf}, {})", f.header.query_format, f.header.body_format, hex_trunc(&f.body, 48), hex_trunc(body, 48)))
                } else {
                    None
                }
            }
        };
        if e.body != ExpBody::Open {
            if let Some(role) = after_failed {
                rep.count(&format!("ser.results_compared_after_failed_serialization.{role}"), 1);
            }
        }
        match bad {
            Some(b) => match after_failed {
                Some(role) => cx.viol(
                    rep,
                    format!("C03:{name}:body-differs-after-failed-serialization:{role}"),
                    format!(
                        "{name}, sequence {}, request #{i} ({label}, variant {}): the response (ec {}, right id, right query echo) does not report the handler's result: {b}. {}",
                        cx.seq,
                        r.variant,
                        f.header.ec,
                        match failed_before {
                            Some(j) => format!("Request #{j} of the same connection ({}, {}, notify={}) had a result that failed to serialize", reqs[j].expect.label, reqs[j].variant, reqs[j].notify),
                            None => "This pipeline has no failing request; other connections of the same server were served requests whose result fails to serialize at the same time".to_string(),
                        }
                    ),
                    &name,
                    Some(i),
                ),
                None => cx.viol(rep, format!("C03:wrong-result:{name}:{label}"), format!("{name}, sequence {}, request #{i} ({label}, variant {}): {b}", cx.seq, r.variant), &name, Some(i)),
            },
            None => {
                if e.body != ExpBody::Open {
                    rep.count("handler_results_matched", 1);
                }
            }
        }
    }
    // off-reader servers: responses produced on the reader (rejections) keep arrival order among themselves — covered by `inline`
    single
}

/// A response whose error text had to quote long non-ASCII caller text. The statement pins code, id, query and
/// cross-transport equality (checked by L1..L3); here: a body labelled UTF-8 must be UTF-8, plus evidence counters
/// (which error-text lengths were really produced, was the caller text quoted in full).
fn observe_reflected(rep: &mut Report, cx: &SeqCtx, name: &str, i: usize, rf: &gen_::Reflect, f: &Frame) {
    rep.count("nonascii.responses_checked", 1);
    rep.count(&format!("nonascii.answered.{}", rf.kind), 1);
    if f.header.body_format == 3 {
        match std::str::from_utf8(&f.body) {
            Ok(_) => rep.count("nonascii.error_text_valid_utf8", 1),
            Err(e) => cx.viol(
                rep,
                format!("C03:{name}:non-ascii-error-text:body-not-utf8:{}", rf.kind),
                format!("{name}, sequence {}, request #{i} ({}): response body is labelled UTF-8 (body_format 3) but is not UTF-8 at byte {} of {} (…{})", cx.seq, rf.kind, e.valid_up_to(), f.body.len(), hex_trunc(&f.body[e.valid_up_to().saturating_sub(4)..], 12)),
                name,
                Some(i),
            ),
        }
    }
    let quoted = f.body.len() >= rf.needle.len() && f.body.windows(rf.needle.len()).any(|w| w == &rf.needle[..]);
    rep.count(if quoted { "nonascii.error_text_quotes_caller_text_in_full" } else { "nonascii.info_error_text_lacks_full_caller_text" }, 1);
    if rf.aimed_len > 0 {
        let d = f.body.len() as i64 - rf.boundary as i64;
        if f.body.len() == rf.aimed_len {
            rep.count(&format!("nonascii.aimed_error_text_length_hit.{}", rf.kind), 1);
        } else {
            rep.count(&format!("nonascii.info_aimed_error_text_length_missed.{}", rf.kind), 1);
        }
        if (-1..=1).contains(&d) {
            rep.count(&format!("nonascii.error_text_len.landmark{}{}", rf.boundary, match d { -1 => "-1", 0 => "+0", _ => "+1" }), 1);
        }
        if d > 0 && !f.body.is_char_boundary_at(rf.boundary) {
            rep.count(&format!("nonascii.landmark_inside_character.{}", rf.boundary), 1);
        }
    }
}

trait CharBoundary {
    fn is_char_boundary_at(&self, at: usize) -> bool;
}
impl CharBoundary for Vec<u8> {
    /// `at` is not a UTF-8 continuation byte (or is the end)
    fn is_char_boundary_at(&self, at: usize) -> bool {
        at >= self.len() || (self[at] & 0xC0) != 0x80
    }
}

fn differential(rep: &mut Report, cx: &SeqCtx, servers: &[Srv], singles: &[Vec<Option<RespFields>>]) {
    for fam in [false, true] {
        let idx: Vec<usize> = (0..servers.len()).filter(|&s| servers[s].mw == fam).collect();
        for (i, r) in cx.reqs.iter().enumerate() {
            if r.notify == 1 {
                continue;
            }
            let have: Vec<usize> = idx.iter().copied().filter(|&s| singles[s][i].is_some()).collect();
            if have.len() < 2 {
                continue;
            }
            let a = have[0];
            let fa = singles[a][i].as_ref().unwrap();
            for &b in &have[1..] {
                rep.count("differential_comparisons", 1);
                let fb = singles[b][i].as_ref().unwrap();
                if fa != fb {
                    let field = if fa.0 != fb.0 { "ec" } else if fa.1 != fb.1 { "query_format" } else if fa.2 != fb.2 { "body_format" } else if fa.3 != fb.3 { "query" } else { "body" };
                    let show = |f: &RespFields| format!("ec={} qf={} bf={} query={:?} body={:?}", f.0, f.1, f.2, String::from_utf8_lossy(&f.3[..f.3.len().min(60)]), String::from_utf8_lossy(&f.4[..f.4.len().min(160)]));
                    cx.viol(rep, 
                        format!("C03:differential:{}:{field}:{}-vs-{}", r.expect.label, servers[a].name(), servers[b].name()),
                        format!("sequence {}, request #{i} ({}, variant {}): {} answered [{}], {} answered [{}]", cx.seq, r.expect.label, r.variant, servers[a].name(), show(fa), servers[b].name(), show(fb)),
                        &servers[b].name(), Some(i),
                    );
                }
            }
        }
    }
    // informational only (not in the statement): middleware-wrapped vs plain router
    for (i, r) in cx.reqs.iter().enumerate() {
        // (the group of the back-pressure class has no middleware family)
        if servers.len() <= 4 || servers[0].mw == servers[4].mw {
            break;
        }
        if r.notify != 1 {
            if let (Some(a), Some(b)) = (&singles[0][i], &singles[4][i]) {
                if a != b {
                    rep.count("info_plain_vs_middleware_router_field_differences", 1);
                }
            }
        }
    }
}

async fn run_sequence(servers: Arc<Vec<Srv>>, reqs: Arc<Vec<Req>>, mut rng: Rng) -> Vec<ConnOut> {
    let wire: Arc<Vec<Vec<u8>>> = Arc::new(reqs.iter().map(|r| r.wire()).collect());
    let n_expected = reqs.iter().filter(|r| r.notify != 1).count();
    let mut hs = vec![];
    for s in servers.iter() {
        let (wire, addr, sid) = (wire.clone(), s.addr, s.sid);
        let r = rng.fork(sid as u64);
        let h = if s.is_ws() {
            let mut keys = vec![];
            for q in reqs.iter() {
                if q.expect.invoked {
                    keys.push((EV_H, q.token));
                }
                if s.mw && q.expect.dispatched {
                    keys.push((EV_MW, q.id));
                }
            }
            tokio::spawn(async move { cli::ws_conn(addr, wire, n_expected, sid, keys).await })
        } else {
            let early = rng.chance(1, 3);
            tokio::spawn(async move { cli::tcp_conn(addr, wire, n_expected, early, r).await })
        };
        hs.push(h);
    }
    let mut outs = vec![];
    for h in hs {
        outs.push(match h.await {
            Ok(o) => o,
            Err(e) => ConnOut { frames: vec![], end: End::Harness(format!("client task failed: {e}")), garbage: None, waited_out: false, bytes: 0, wrote_all: false },
        });
    }
    outs
}

pub fn run(args: &Args) -> Report {
    if args.stage == "c01net" {
        return c01_net(args);
    }
    let mut rep = Report::new(
        args,
        "c03-four-paths",
        "generated pipelined sequences (1..=64 requests: version, query-format code, UTF-8/non-UTF-8 query, registered/unknown \
         path, 19 targets over every built-in handler kind, body-format codes {0,1,2,3,4,0xffff}, well-formed/malformed bodies, \
         notify 0/1) sent by raw peers to Server, AsyncServer, WebSocketServer inline and WebSocketServer off-reader, each plain \
         and behind a middleware; peers half-close / send Close and read to end of stream; plus pipelines whose error texts quote \
         long non-ASCII caller text (2/3/4-byte characters, every alignment around 256/1024/4096/8192/65536 bytes of error text) \
         and, on blocking and async TCP servers with 60/100/150 ms read timeouts, frames delivered in pieces with pauses shorter \
         and several times longer than the timeout whose remainder after the cut is itself one or more valid request frames or \
         garbage; plus typed handlers whose RESULT fails to serialize part-way (4 fail modes x JSON/BEVE/UTF-8/raw response format x \
         6 kinds that return the record, notify 0/1) pipelined between ordinary requests and next to bystander connections on the \
         same servers, every other body compared with the third-party encoding of the handler's result; plus pipelines against \
         WebSocket servers with outbound queues of 1/2/3/8 messages on current-thread and multi-thread runtimes from peers that \
         write the whole pipeline before reading / read slowly (arrival order of reader-produced answers under back-pressure); plus, on blocking and async TCP servers with 60/100/150/300 ms \
         read timeouts, whole frames paced at 10..70 % of the timeout for several timeouts with long stretches of notifies / rejected \
         notifies between requests; plus registry functions that read and write their own registry (and the one next to it) and a \
         handler that calls into the server's peer registry while running, between ordinary requests and next to connections using \
         the same registry, on every dispatch path (bounded-progress verdict for requests that are never answered); distinct = (class label, target, body format, variant, notify, landmark/width/offset) per request plus the \
         class-label sequence of each pipeline, and (server, outer kind, tail kind, cut class, pause class, cut offsets) per \
         read-timeout scenario",
    );
    let gag = srv::Gag::new();
    let body = catching(|| run_inner(args, &mut rep));
    drop(gag);
    if let Err(p) = body {
        rep.inconclusive(format!("harness panic: {p}"));
    }
    rep
}

/// Account for and judge one executed pipeline (all servers). Returns the per-server single responses.
fn judge_sequence(rep: &mut Report, cx: &SeqCtx, servers: &[Srv], outs: &[ConnOut], sample: bool) -> Vec<Vec<Option<RespFields>>> {
    let reqs = cx.reqs;
    rep.count("requests_generated", reqs.len() as u64);
    rep.count("requests_sent_over_all_paths", (reqs.len() * servers.len()) as u64);
    rep.distinct(&reqs.iter().map(|r| (r.expect.label.clone(), r.notify)).collect::<Vec<_>>());
    for r in reqs.iter() {
        rep.distinct(&(&r.expect.label, r.target, r.bf, r.variant, r.notify, r.reflect.as_ref().map(|f| (f.boundary, f.width, f.aimed_len as i64 - f.boundary as i64))));
        rep.count(&format!("class.{}", r.expect.label.split(':').next().unwrap_or("")), 1);
        if r.notify == 1 {
            rep.count("notify_requests", 1);
        }
        if let Some(rf) = &r.reflect {
            rep.count(&format!("nonascii.requests.{}", rf.kind), 1);
            rep.count("nonascii.caller_text_bytes_sent_per_path", rf.needle.len() as u64);
        }
    }
    if sample {
        rep.sample(json!({"sequence": cx.seq, "len": reqs.len(), "first_requests": reqs.iter().take(4).enumerate().map(|(i, r)| r.desc(i)).collect::<Vec<_>>()}));
    }
    let mut singles = vec![];
    for (s, out) in servers.iter().zip(outs.iter()) {
        rep.eval();
        if out.waited_out {
            rep.count("waits_for_expected_responses_expired", 1);
        }
        singles.push(check_server(rep, cx, s, out));
    }
    differential(rep, cx, servers, &singles);
    singles
}

/// Workload class "error texts quoting long non-ASCII caller text": probe which request kinds the library quotes and
/// with how many bytes around the quote, then aim pipelines at every length landmark / character alignment.
async fn nonascii_phase(rep: &mut Report, args: &Args, servers: &Arc<Vec<Srv>>, hb: &Heartbeat, seen: &std::cell::RefCell<std::collections::HashSet<String>>, gst: &mut GenStats, deadline: Duration) {
    let mut rng = Rng::new(args.seed ^ 0xC03_0A5C);
    let probe_seq = 900_000u64;
    let probe = Arc::new(gen_::reflect_probe_seq(probe_seq, &mut rng, gst));
    let outs = run_sequence(servers.clone(), probe.clone(), rng.fork(1)).await;
    let cx = SeqCtx { seed: args.seed, seq: probe_seq, reqs: &probe, stalled: hb.max_gap_ms() > 1000, seen, ser: None, progress: false };
    let singles = judge_sequence(rep, &cx, servers, &outs, false);
    let mut overhead: Vec<(&'static str, Vec<Option<usize>>)> = gen_::REFLECT_KINDS.iter().map(|k| (*k, vec![None; gen_::reflect_subs(k)])).collect();
    for (i, r) in probe.iter().enumerate() {
        let rf = r.reflect.as_ref().unwrap();
        // measured on the first server that answered; the differential pins that the others agree
        let body = singles.iter().find_map(|s| s[i].as_ref().map(|f| f.4.clone()));
        let key = format!("nonascii.probe.{}.{}", rf.kind, rf.sub);
        match body {
            Some(b) if b.windows(rf.needle.len()).filter(|w| *w == &rf.needle[..]).count() == 1 => {
                overhead.iter_mut().find(|o| o.0 == rf.kind).unwrap().1[rf.sub] = Some(b.len() - rf.needle.len());
                rep.count("nonascii.probe.variants_quoted", 1);
                if rf.sub == 0 {
                    rep.set(&key, json!({"quoted": true, "bytes_around_quote": b.len() - rf.needle.len(), "error_text": String::from_utf8_lossy(&b)}));
                }
            }
            Some(b) => {
                rep.count("nonascii.probe.variants_not_quoted_by_the_library", 1);
                rep.set(&key, json!({"quoted": false, "error_text": String::from_utf8_lossy(&b[..b.len().min(200)])}));
            }
            None => {
                rep.count("nonascii.probe.variants_without_single_response", 1);
            }
        }
    }
    overhead.retain(|o| o.1.iter().any(|x| x.is_some()));
    rep.set("nonascii.kinds_quoted", json!(overhead.iter().map(|o| o.0).collect::<Vec<_>>()));
    if overhead.is_empty() {
        rep.inconclusive("non-ASCII error texts: no request kind was found whose error text quotes caller text (probe)");
        return;
    }
    let (landmarks, spread): (&[usize], usize) = if args.thorough() { (&gen_::LANDMARKS_THOROUGH, 6) } else { (&gen_::LANDMARKS_QUICK, 0) };
    let seqs = gen_::reflect_seqs(probe_seq + 1, &mut rng, gst, &overhead, landmarks, spread);
    rep.set("nonascii.pipelines_planned", json!(seqs.len()));
    let mut pending: std::collections::VecDeque<(u64, Arc<Vec<Req>>, tokio::task::JoinHandle<Vec<ConnOut>>)> = Default::default();
    let mut it = seqs.into_iter();
    let mut executed = 0u64;
    loop {
        while pending.len() < 3 && rep.elapsed() < deadline {
            let Some((seq, reqs)) = it.next() else { break };
            let reqs = Arc::new(reqs);
            let h = tokio::spawn(run_sequence(servers.clone(), reqs.clone(), rng.fork(seq)));
            pending.push_back((seq, reqs, h));
        }
        let Some((seq, reqs, h)) = pending.pop_front() else { break };
        let outs = match h.await {
            Ok(o) => o,
            Err(e) => {
                rep.inconclusive(format!("non-ASCII error text pipeline {seq} failed: {e}"));
                continue;
            }
        };
        executed += 1;
        let cx = SeqCtx { seed: args.seed, seq, reqs: &reqs, stalled: hb.max_gap_ms() > 1000, seen, ser: None, progress: false };
        judge_sequence(rep, &cx, servers, &outs, executed == 1);
    }
    rep.set("nonascii.pipelines_executed", json!(executed));
    if it.next().is_some() {
        rep.set("nonascii.stopped_by_wall_clock_budget", json!(true));
    }
}

/// Workload class "the handler's RESULT fails to serialize part-way": groups of pipelines run concurrently on all eight
/// servers; in some of them requests whose result cannot be encoded (every fail mode x response format x kind) alternate
/// with ordinary requests, the others (bystanders, other connections of the same servers / runtime worker threads) carry
/// ordinary requests only. Same oracle as everywhere: the failing request gets exactly one response with the failed-encode
/// code, every other response body is exactly the handler's result.
async fn ser_phase(rep: &mut Report, args: &Args, servers: &Arc<Vec<Srv>>, hb: &Heartbeat, seen: &std::cell::RefCell<std::collections::HashSet<String>>, deadline: Duration) {
    let mut rng = Rng::new(args.seed ^ 0xC03_5E71);
    let groups = gen_::ser_groups(950_000, &mut rng, args.budget(14, 160) as usize);
    rep.set("ser.groups_planned", json!(groups.len()));
    let mut executed = 0u64;
    for group in groups {
        if rep.elapsed() > deadline {
            rep.set("ser.stopped_by_wall_clock_budget", json!(true));
            break;
        }
        // bystander connections are opened first so that they are being served when the failures happen
        let mut hs = vec![];
        for (seq, role, reqs) in group.into_iter().rev() {
            let reqs = Arc::new(reqs);
            let h = tokio::spawn(run_sequence(servers.clone(), reqs.clone(), rng.fork(seq)));
            hs.push((seq, role, reqs, h));
        }
        for (seq, role, reqs, h) in hs {
            let outs = match h.await {
                Ok(o) => o,
                Err(e) => {
                    rep.inconclusive(format!("failed-serialization pipeline {seq} failed: {e}"));
                    continue;
                }
            };
            executed += 1;
            let n_fail = reqs.iter().filter(|r| r.expect.label.starts_with("result-unserializable")).count() as u64;
            rep.count("ser.pipelines_executed", 1);
            rep.count(if role == gen_::SerRole::Failing { "ser.pipelines_with_failing_results" } else { "ser.bystander_pipelines" }, 1);
            rep.count("ser.requests_with_unserializable_result_sent_per_path", n_fail);
            rep.count("ser.unserializable_result_notifies_per_path", reqs.iter().filter(|r| r.notify == 1 && r.expect.label.starts_with("result-unserializable")).count() as u64);
            let cx = SeqCtx { seed: args.seed, seq, reqs: &reqs, stalled: hb.max_gap_ms() > 1000, seen, ser: Some(role), progress: false };
            judge_sequence(rep, &cx, servers, &outs, executed == 1);
        }
    }
    if executed == 0 {
        rep.inconclusive("failed-serialization class: no pipeline executed");
    }
}

/// Workload class "the server's outbound path backs up" (c03_bp.rs): pipelines against WebSocket servers with outbound
/// queues of 1, 2, 3, 8 messages on current-thread and multi-thread runtimes, from peers that write everything before
/// they read / read slowly; the blocking and the async TCP server get the same pipeline as references.
async fn bp_phase(rep: &mut Report, args: &Args, group: &Arc<Vec<Srv>>, hb: &Heartbeat, seen: &std::cell::RefCell<std::collections::HashSet<String>>, gst: &mut GenStats, window: Duration) {
    let mut rng = Rng::new(args.seed ^ 0xC03_0B9);
    let n = args.budget(160, 2400);
    let grace = Duration::from_millis(250);
    let t0 = rep.elapsed();
    let in_flight = 4usize;
    type Outs = Vec<(ConnOut, Option<(&'static str, cli::BpObs)>)>;
    let mut pending: std::collections::VecDeque<(u64, &'static str, Arc<Vec<Req>>, tokio::task::JoinHandle<Outs>)> = Default::default();
    let mut next = 0u64;
    let mut executed = 0u64;
    rep.set("bp.pipelines_planned", json!(n));
    loop {
        while pending.len() < in_flight && next < n && rep.elapsed() < t0 + window {
            let seq = 970_000 + next;
            let mut r = rng.fork(next);
            let (style, reqs) = gen_::bp_seq(seq, &mut r, gst);
            let reqs = Arc::new(reqs);
            let (group, reqs2, mut pr) = (group.clone(), reqs.clone(), r.fork(9));
            let h = tokio::spawn(async move {
                let reqs = reqs2;
                let wire: Arc<Vec<Vec<u8>>> = Arc::new(reqs.iter().map(|r| r.wire()).collect());
                let n_expected = reqs.iter().filter(|r| r.notify != 1).count();
                let mut hs = vec![];
                for s in group.iter() {
                    let (wire, addr, sid) = (wire.clone(), s.addr, s.sid);
                    if s.is_ws() {
                        let keys: Vec<(u8, u64)> = reqs.iter().filter(|q| q.expect.invoked).map(|q| (EV_H, q.token)).collect();
                        let (mode, peer) = bp::peer_for(&mut pr.fork(sid as u64), grace);
                        hs.push(tokio::spawn(async move {
                            let (o, obs) = cli::ws_conn_bp(addr, wire, n_expected, sid, keys, peer).await;
                            (o, Some((mode, obs)))
                        }));
                    } else {
                        let r = pr.fork(sid as u64);
                        hs.push(tokio::spawn(async move { (cli::tcp_conn(addr, wire, n_expected, false, r).await, None) }));
                    }
                }
                let mut outs: Outs = vec![];
                for h in hs {
                    outs.push(match h.await {
                        Ok(o) => o,
                        Err(e) => (ConnOut { frames: vec![], end: End::Harness(format!("client task failed: {e}")), garbage: None, waited_out: false, bytes: 0, wrote_all: false }, None),
                    });
                }
                outs
            });
            pending.push_back((seq, style, reqs, h));
            next += 1;
        }
        let Some((seq, style, reqs, h)) = pending.pop_front() else { break };
        let outs = match h.await {
            Ok(o) => o,
            Err(e) => {
                rep.inconclusive(format!("back-pressure pipeline {seq} failed: {e}"));
                continue;
            }
        };
        executed += 1;
        rep.count("bp.pipelines_executed", 1);
        rep.count(&format!("bp.pipelines.{style}"), 1);
        rep.count("bp.requests_per_path", reqs.len() as u64);
        rep.count("bp.requests_with_large_response_per_path", reqs.iter().filter(|r| r.variant.starts_with("large-")).count() as u64);
        rep.count("bp.rejected_requests_per_path", reqs.iter().filter(|r| !r.expect.dispatched && r.notify != 1).count() as u64);
        rep.count("bp.notifies_per_path", reqs.iter().filter(|r| r.notify == 1).count() as u64);
        // a rejected request with a request answered on the reader pipelined behind it: the pair the order clause is about
        let rej_then_inline = (0..reqs.len()).filter(|&i| !reqs[i].expect.dispatched && reqs[i].notify != 1 && reqs[i + 1..].iter().any(|q| q.notify != 1 && (!q.expect.dispatched || q.target.map(|t| !t.blocking_variant()).unwrap_or(true)))).count() as u64;
        for (s, (o, info)) in group.iter().zip(outs.iter()) {
            let Some((mode, obs)) = info else { continue };
            if matches!(o.end, End::Harness(_)) {
                continue;
            }
            let flavour = if bp::is_current_thread(s) { "current-thread" } else { "multi-thread" };
            rep.count(&format!("bp.connections.{flavour}"), 1);
            rep.count(&format!("bp.connections.{}", s.name()), 1);
            rep.count(&format!("bp.peer.{mode}"), 1);
            rep.count(&format!("bp.rejected_requests_with_reader_answered_request_behind.{flavour}"), rej_then_inline);
            if obs.wrote_all_before_reading {
                rep.count("bp.peers_wrote_whole_pipeline_before_first_read", 1);
            }
            if obs.grace_expired {
                rep.count("bp.peers_started_reading_because_their_writes_stalled", 1);
            }
            rep.count("bp.response_bytes_received", o.bytes as u64);
        }
        let before = rep.get_count("inline_order_pairs_checked");
        let couts: Vec<ConnOut> = outs.into_iter().map(|(o, _)| o).collect();
        let cx = SeqCtx { seed: args.seed, seq, reqs: &reqs, stalled: hb.max_gap_ms() > 1000, seen, ser: None, progress: false };
        judge_sequence(rep, &cx, group, &couts, executed == 1);
        let after = rep.get_count("inline_order_pairs_checked");
        rep.count("bp.inline_order_pairs_checked", after - before);
    }
    rep.set("bp.phase_wall_ms", json!((rep.elapsed() - t0).as_millis() as u64));
    if next < n {
        rep.set("bp.stopped_by_wall_clock_budget", json!(true));
    }
    if executed == 0 || rep.get_count("bp.connections.current-thread") == 0 || rep.get_count("bp.inline_order_pairs_checked") == 0 {
        rep.inconclusive("back-pressure class: no pipeline judged on a current-thread WebSocket server with a short outbound queue");
    }
}

/// Workload class "handlers that re-enter the state they are served from" (c03_re.rs): pipelines that call registry
/// functions which read and write their own registry / the other registry, and a handler that calls into the server's
/// peer registry, between ordinary requests, next to bystander connections (plain reads / writes of the same registry) on
/// the same servers; one server per dispatch path, two of them on current-thread runtimes.
async fn reent_phase(rep: &mut Report, args: &Args, group: &Arc<Vec<Srv>>, hb: &Heartbeat, seen: &std::cell::RefCell<std::collections::HashSet<String>>, gst: &mut GenStats) {
    let mut rng = Rng::new(args.seed ^ 0xC03_0EE7);
    let n = args.budget(48, 480) as usize;
    let t0 = rep.elapsed();
    let pipelines = gen_::reent_pipelines(980_000, &mut rng, gst, n);
    rep.set("reent.pipelines_planned", json!(pipelines.len()));
    let mut executed = 0u64;
    // waves of pipelines that are served at the same time (bystanders first, so that they are being served when the
    // re-entrant calls happen)
    let mut it = pipelines.into_iter().peekable();
    while it.peek().is_some() {
        let mut wave: Vec<(u64, gen_::ReRole, Arc<Vec<Req>>)> = vec![];
        while wave.len() < 48 {
            let Some((seq, role, reqs)) = it.next() else { break };
            wave.push((seq, role, Arc::new(reqs)));
        }
        wave.sort_by_key(|w| w.1 == gen_::ReRole::Reentrant);
        let hs: Vec<_> = wave.iter().map(|(seq, _, reqs)| tokio::spawn(run_sequence(group.clone(), reqs.clone(), rng.fork(*seq)))).collect();
        for ((seq, role, reqs), h) in wave.into_iter().zip(hs) {
            let outs = match h.await {
                Ok(o) => o,
                Err(e) => {
                    rep.inconclusive(format!("re-entrant handler pipeline {seq} failed: {e}"));
                    continue;
                }
            };
            executed += 1;
            rep.count("reent.pipelines_executed", 1);
            rep.count(if role == gen_::ReRole::Reentrant { "reent.pipelines_with_reentrant_calls" } else { "reent.bystander_pipelines" }, 1);
            for r in reqs.iter() {
                if let Some(t) = r.target.filter(|t| srv::REENT_FN_T.contains(t) || matches!(t, T::RrConst | T::RrW)) {
                    rep.count(&format!("reent.requests_per_path.{}", t.path()), 1);
                    if r.notify == 1 {
                        rep.count("reent.notifies_per_path", 1);
                    }
                }
            }
            let before = (rep.get_count("requests_with_exactly_one_response"), rep.get_count("handler_results_matched"));
            let cx = SeqCtx { seed: args.seed, seq, reqs: &reqs, stalled: hb.max_gap_ms() > 1000, seen, ser: None, progress: true };
            let singles = judge_sequence(rep, &cx, group, &outs, executed == 1);
            rep.count("reent.requests_with_exactly_one_response", rep.get_count("requests_with_exactly_one_response") - before.0);
            rep.count("reent.handler_results_matched", rep.get_count("handler_results_matched") - before.1);
            for (s, per) in group.iter().zip(singles.iter()) {
                let answered = reqs.iter().zip(per.iter()).filter(|(r, f)| f.is_some() && r.target.map(|t| srv::REENT_FN_T.contains(&t)).unwrap_or(false)).count() as u64;
                rep.count(&format!("reent.reentrant_calls_answered.{}", s.name()), answered);
                rep.count("reent.reentrant_calls_answered", answered);
            }
        }
        if rep.get_count("requests_never_answered_within_progress_window") > 0 && it.peek().is_some() {
            // serving threads are gone for good: further waves could only fail to connect
            rep.count("reent.stopped_after_requests_were_never_answered", 1);
            break;
        }
    }
    rep.set("reent.phase_wall_ms", json!((rep.elapsed() - t0).as_millis() as u64));
    if rep.get_count("reent.stopped_after_requests_were_never_answered") > 0 {
        return;
    }
    if executed == 0 {
        rep.inconclusive("re-entrant handler class: no pipeline executed");
    } else if rep.get_count("reent.reentrant_calls_answered") == 0 && rep.violations.is_empty() {
        rep.inconclusive("re-entrant handler class: no re-entrant call was observed to be answered");
    }
}

fn run_inner(args: &Args, rep: &mut Report) {
    let hb = Heartbeat::start();
    let srv_rt = tokio::runtime::Builder::new_multi_thread().worker_threads(4).thread_name("c03-srv").enable_all().build().unwrap();
    let cli_rt = tokio::runtime::Builder::new_multi_thread().worker_threads(4).thread_name("c03-cli").enable_all().build().unwrap();
    let servers = match srv::start_all(&srv_rt) {
        Ok(s) => Arc::new(s),
        Err(e) => {
            rep.inconclusive(format!("could not start servers: {e}"));
            return;
        }
    };
    let rt_servers = match rt::start(&srv_rt) {
        Ok(s) => Arc::new(s),
        Err(e) => {
            rep.inconclusive(format!("could not start the read-timeout servers: {e}"));
            Arc::new(vec![])
        }
    };
    // short-outbound-queue WebSocket servers, preceded by the blocking and the async TCP server as references
    let bp_group: Arc<Vec<Srv>> = match bp::start(&srv_rt) {
        Ok(s) => Arc::new(servers.iter().filter(|s| !s.is_ws() && !s.mw).cloned().chain(s).collect()),
        Err(e) => {
            rep.inconclusive(format!("could not start the short-outbound-queue servers: {e}"));
            Arc::new(vec![])
        }
    };
    // one server per dispatch path for the re-entrant handlers, on a runtime of their own
    let re_rt: [tokio::runtime::Runtime; 3] = std::array::from_fn(|_| tokio::runtime::Builder::new_multi_thread().worker_threads(3).thread_name("c03-re-srv").enable_all().build().unwrap());
    let re_group: Arc<Vec<Srv>> = match re::start(&re_rt) {
        Ok(s) => Arc::new(s),
        Err(e) => {
            rep.inconclusive(format!("could not start the servers of the re-entrant handler class: {e}"));
            Arc::new(vec![])
        }
    };
    let mut names: Vec<String> = servers.iter().map(|s| s.name()).collect();
    names.extend(rt_servers.iter().map(|s| s.name()));
    names.extend(re_group.iter().map(|s| s.name()));
    names.extend(bp_group.iter().filter(|s| s.tag.is_some()).map(|s| s.name()));
    rep.set("servers", json!(names));
    let n = args.budget(2_500, 36_000);
    let deadline = Duration::from_secs(if args.thorough() { 420 } else { 33 });
    let in_flight = 6usize;
    let mut rng = Rng::new(args.seed ^ 0xC03);
    let mut gst = GenStats { classifier_disagreements: 0 };
    let seed = args.seed;
    let mut executed = 0u64;
    let seen = std::cell::RefCell::new(std::collections::HashSet::new());
    cli_rt.block_on(async {
        // ---- class 1: frames delivered in pieces to servers with short read timeouts (own servers)
        if !rt_servers.is_empty() {
            let n_rt = args.budget(420, 6_000);
            let rt_deadline = Duration::from_secs(if args.thorough() { 90 } else { 9 });
            // paced traffic (whole frames spaced inside the timeout, long notify-only stretches): the connections mostly
            // sleep, so they run next to the cut-frame class and are judged after it
            let paced = rt::spawn_paced(args, &rt_servers);
            rt::run(rep, args, &rt_servers, &hb, n_rt, rt_deadline).await;
            rt::judge_paced(rep, args, paced, &hb).await;
        }
        let t_rt = rep.elapsed();
        rep.set("rt.phase_wall_ms", json!(t_rt.as_millis() as u64));
        // ---- class 1b: handler results that fail to serialize part-way, next to ordinary requests on the same and on
        // other connections (the eight servers of the main class)
        let t_ser = rep.elapsed();
        ser_phase(rep, args, &servers, &hb, &seen, t_ser + Duration::from_secs(if args.thorough() { 40 } else { 5 })).await;
        let ser_ms = (rep.elapsed() - t_ser).as_millis() as u64;
        rep.set("ser.phase_wall_ms", json!(ser_ms));
        // ---- class 2: error texts that quote long non-ASCII caller text (the eight servers of the main class)
        let na_deadline = Duration::from_secs(if args.thorough() { 200 } else { 19 });
        nonascii_phase(rep, args, &servers, &hb, &seen, &mut gst, na_deadline).await;
        rep.set("nonascii.phase_wall_ms", json!(((rep.elapsed() - t_rt).as_millis() as u64).saturating_sub(ser_ms)));
        // ---- class 3: generated pipelines
        let mut pending: std::collections::VecDeque<(u64, Arc<Vec<Req>>, tokio::task::JoinHandle<Vec<ConnOut>>)> = Default::default();
        let mut next = 0u64;
        loop {
            while pending.len() < in_flight && next < n && rep.elapsed() < deadline {
                let mut r = rng.fork(next);
                let reqs = Arc::new(gen_::gen_seq(next, &mut r, &mut gst));
                let h = tokio::spawn(run_sequence(servers.clone(), reqs.clone(), r.fork(7)));
                pending.push_back((next, reqs, h));
                next += 1;
            }
            let Some((seq, reqs, h)) = pending.pop_front() else { break };
            let outs = match h.await {
                Ok(o) => o,
                Err(e) => {
                    rep.inconclusive(format!("sequence task {seq} failed: {e}"));
                    continue;
                }
            };
            executed += 1;
            let stalled = hb.max_gap_ms() > 1000;
            let cx = SeqCtx { seed, seq, reqs: &reqs, stalled, seen: &seen, ser: None, progress: false };
            judge_sequence(rep, &cx, &servers, &outs, seq < 3);
        }
        // ---- class 4: WebSocket servers whose outbound path backs up (own servers + the two plain TCP servers)
        if !bp_group.is_empty() {
            bp_phase(rep, args, &bp_group, &hb, &seen, &mut gst, Duration::from_secs(if args.thorough() { 150 } else { 14 })).await;
        }
        // ---- class 5: handlers that re-enter the state they are served from (own servers; last, because a handler that
        // never returns takes its serving thread with it)
        if !re_group.is_empty() {
            reent_phase(rep, args, &re_group, &hb, &seen, &mut gst).await;
        }
        // late or unattributable invocations: anything still in the log was produced after its request
        // had been judged (a second dispatch arriving late) or carries a token nobody sent
        tokio::time::sleep(Duration::from_millis(300)).await;
    });
    let leftovers = srv::ev_drain();
    for ((sid, kind, key), (cnt, route)) in leftovers.iter().take(5) {
        let name = servers.iter().find(|s| s.sid == *sid).map(|s| s.name()).or_else(|| rt_servers.iter().find(|s| s.sid == *sid).map(|s| s.name())).or_else(|| bp_group.iter().find(|s| s.sid == *sid).map(|s| s.name())).or_else(|| re_group.iter().find(|s| s.sid == *sid).map(|s| s.name())).unwrap_or_default();
        rep.violation(
            format!("C03:late-or-unattributable-invocation:{name}:{}", if *kind == EV_H { "handler" } else { "middleware" }),
            format!("{name}: {cnt} invocation record(s) with key {key} (route id {route}) after every request had been judged: a handler ran again late, or for a token no request carried (sequence {} request {} if a token)", key / 256, (key % 256).wrapping_sub(1)),
            json!({"seed": seed, "key": key}),
        );
    }
    rep.set("sequences_executed", json!(executed));
    rep.set("sequences_planned", json!(n));
    rep.set("invocation_events_logged", json!(srv::EVENTS_TOTAL.load(std::sync::atomic::Ordering::Relaxed)));
    rep.set("generator_classifier_disagreements", json!(gst.classifier_disagreements));
    rep.set("heartbeat_max_gap_ms", json!(hb.max_gap_ms()));
    rep.assume("body decodability of generated bodies is classified with serde_json/beve directly (third-party codecs), never through repe");
    rep.assume("when several reject conditions hold at once the statement fixes no precedence: any of the applicable codes is accepted by L2, the differential pins agreement");
    rep.assume("read-timeout class: a server may end a connection whenever the peer pauses (and a pause may stretch on a loaded machine), so unanswered requests at the end of such a connection are never a violation; only responses / handler runs for frames that were not sent, skipped, duplicated, reordered or wrong responses are");
    rep.assume("a handler RESULT that cannot be serialized (decided with serde_json/beve alone) is not a class the statement names a code for: the accepted code is the one the library's error types map a failed encode to (ParseError 5 via RepeError::Json/Beve; struct methods InvalidBody 4 via StructError::Serialize), the L3 differential pins agreement across transports; every OTHER response body must be the third-party encoding of the handler's result (or at least decode to it)");
    rep.assume("error texts are not pinned by the statement: they are compared across the four transports (L3) and a body labelled UTF-8 must be UTF-8; whether the caller text is quoted in full is only counted");
    if executed == 0 {
        rep.inconclusive("no sequence executed");
    } else if executed < n {
        rep.set("stopped_by_wall_clock_budget", json!(true));
    }
    let _ = T::Json;
    let _ = Tr::Tcp;
    srv_rt.shutdown_background();
    for rt in re_rt {
        rt.shutdown_background();
    }
    cli_rt.shutdown_background();
}
