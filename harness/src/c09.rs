//! C09 — a pulled value stream reproduces the producer's bytes exactly and ends once.
//!
//! Real `repe::Server` / `repe::WebSocketServer` with every producer kind registered through
//! `RouterValueStreamExt`. Stage `raw`: a raw client (oracle.rs frames over TCP, or over a
//! tokio-tungstenite WebSocket) performs open/next/cancel itself and logs every (chunk, last) pair.
//! Stage `pullers`: the library pullers (sync Client, AsyncClient, WebSocketClient) on the same grid.
//! Both stages also run a family with GATED producers (reader / writer producers that park on a gate
//! the harness opens): `raw` puts several `next` requests for one stream id in flight together while
//! the producer is parked before its end or failure; `pullers` releases the stream from a second
//! connection in the middle of a library pull.
//! The expected logical bytes are computed independently (`beve::to_vec*` in one shot, or the source
//! bytes), decompression is done by the harness with the `zstd` crate.

#[cfg(not(feature = "net"))]
use crate::common::*;

#[cfg(not(feature = "net"))]
pub fn run(args: &Args) -> Report {
    let mut rep = Report::new(args, "c09", "needs the net feature");
    rep.inconclusive("built without the `net` feature");
    rep
}

#[cfg(feature = "net")]
#[path = "c09_svs.rs"]
pub mod svs;

#[cfg(feature = "net")]
#[path = "c09_proxy.rs"]
pub mod proxy;

#[cfg(feature = "net")]
pub use imp::run;

#[cfg(feature = "net")]
mod imp {
    use super::proxy::{self, Sniff};
    use super::svs::{self, NextOut, RawSvs, RawTransport, TcpRaw, WsRaw};
    use crate::common::*;
    use repe::value_stream::{
        Compression, RouterValueStreamExt, StreamOpts, pull_complex_slice, pull_complex_slice_async, pull_consume, pull_consume_async,
        pull_to_file, pull_to_file_async, pull_to_vec, pull_to_vec_async, pull_typed_slice, pull_typed_slice_async, pull_value,
        pull_value_async,
    };
    use repe::{AsyncClient, BodyFormat, Client, Complex, RepeError, Router, Server, WebSocketClient, WebSocketServer};
    use serde::ser::{Error as _, SerializeStruct};
    use serde::{Deserialize, Serialize};
    use serde_json::{Value, json};
    use std::cell::Cell;
    use std::collections::{BTreeMap, HashMap};
    use std::io::{self, Read, Write};
    use std::net::SocketAddr;
    use std::sync::atomic::{AtomicU64, Ordering};
    use std::sync::mpsc;
    use std::sync::{Arc, Condvar, Mutex};
    use std::time::{Duration, Instant};

    // ------------------------------------------------------------------ producer side (harness-owned data)

    #[derive(Clone, Copy, Debug, PartialEq, Eq, Hash)]
    pub enum Elem {
        U8,
        U16,
        I64,
        F32,
        F64,
    }
    const ELEMS: [Elem; 5] = [Elem::U8, Elem::F64, Elem::U16, Elem::F32, Elem::I64];

    #[derive(Clone, Copy, Debug, PartialEq, Eq, Hash)]
    pub enum Kind {
        Value,
        Typed(Elem),
        Complex(Elem),
        Reader,
        Writer,
    }

    impl Kind {
        fn name(&self) -> String {
            match self {
                Kind::Value => "value".into(),
                Kind::Typed(e) => format!("typed-{e:?}").to_lowercase(),
                Kind::Complex(e) => format!("complex-{e:?}").to_lowercase(),
                Kind::Reader => "reader".into(),
                Kind::Writer => "writer".into(),
            }
        }
        fn class(&self) -> &'static str {
            match self {
                Kind::Value => "value",
                Kind::Typed(_) => "typed",
                Kind::Complex(_) => "complex",
                Kind::Reader => "reader",
                Kind::Writer => "writer",
            }
        }
        fn beve(&self) -> bool {
            matches!(self, Kind::Value | Kind::Typed(_) | Kind::Complex(_))
        }
    }

    /// The resource key: everything the producer needs to build the payload deterministically.
    #[derive(Clone, Debug, PartialEq, Eq, Hash)]
    pub struct Spec {
        /// size parameter (bytes for reader/writer/string pad, elements for arrays)
        pub p: usize,
        pub seed: u64,
        pub compressible: bool,
        /// producer fails after this many logical bytes (reader/writer) / at the second field (value)
        pub fail: Option<usize>,
        pub panic: bool,
        /// seeded sleeps + short reads/writes on the producer side
        pub delay: bool,
        /// value type for the value kind: 0 = String, 1 = Doc
        pub vt: u8,
    }

    impl Spec {
        pub fn res(&self) -> String {
            format!(
                "p={};s={};c={};f={};x={};d={};v={}",
                self.p,
                self.seed,
                self.compressible as u8,
                self.fail.map(|f| f as i64).unwrap_or(-1),
                self.panic as u8,
                self.delay as u8,
                self.vt
            )
        }
        pub fn parse(s: &str) -> Option<Spec> {
            let mut m = BTreeMap::new();
            for kv in s.split(';') {
                let (k, v) = kv.split_once('=')?;
                m.insert(k, v.parse::<i64>().ok()?);
            }
            Some(Spec {
                p: *m.get("p")? as usize,
                seed: *m.get("s")? as u64,
                compressible: *m.get("c")? != 0,
                fail: match *m.get("f")? {
                    f if f < 0 => None,
                    f => Some(f as usize),
                },
                panic: *m.get("x")? != 0,
                delay: *m.get("d")? != 0,
                vt: *m.get("v")? as u8,
            })
        }
    }

    #[derive(Serialize, Deserialize, Clone, Debug, PartialEq)]
    pub struct Doc {
        id: u64,
        label: String,
        samples: Vec<f64>,
        tags: Vec<String>,
        flag: bool,
        pad: String,
    }

    pub enum ValT {
        S(String),
        D(Doc),
        /// serializes `pad`, then fails inside the second field
        F(String),
    }
    struct Boom;
    impl Serialize for Boom {
        fn serialize<S: serde::Serializer>(&self, _s: S) -> Result<S::Ok, S::Error> {
            Err(S::Error::custom("injected serialize failure"))
        }
    }
    impl Serialize for ValT {
        fn serialize<S: serde::Serializer>(&self, s: S) -> Result<S::Ok, S::Error> {
            match self {
                ValT::S(x) => x.serialize(s),
                ValT::D(d) => d.serialize(s),
                ValT::F(pad) => {
                    let mut st = s.serialize_struct("FailDoc", 2)?;
                    st.serialize_field("pad", pad)?;
                    st.serialize_field("boom", &Boom)?;
                    st.end()
                }
            }
        }
    }
    #[derive(Serialize)]
    struct FailDocShape<'a> {
        pad: &'a str,
        boom: u8,
    }

    fn gen_string(seed: u64, p: usize) -> String {
        let mut r = Rng::new(seed ^ 0x57A1);
        let raw = r.bytes(p);
        raw.iter().map(|b| (b'a' + (b % 26)) as char).collect()
    }
    fn gen_doc(seed: u64, p: usize) -> Doc {
        let mut r = Rng::new(seed ^ 0xD0C);
        Doc {
            id: seed,
            label: format!("doc-{seed}"),
            samples: (0..r.below(5)).map(|_| (r.below(1 << 30) as f64) * 0.5 - 7.0).collect(),
            tags: (0..r.below(3)).map(|i| format!("t{i}")).collect(),
            flag: r.coin(),
            pad: gen_string(seed, p),
        }
    }
    fn make_val(s: &Spec) -> ValT {
        if s.fail.is_some() {
            return ValT::F(gen_string(s.seed, s.p));
        }
        if s.vt == 0 { ValT::S(gen_string(s.seed, s.p)) } else { ValT::D(gen_doc(s.seed, s.p)) }
    }

    pub trait Gen: Sized {
        fn gen_one(r: &mut Rng) -> Self;
    }
    impl Gen for u8 {
        fn gen_one(r: &mut Rng) -> u8 {
            r.next_u64() as u8
        }
    }
    impl Gen for u16 {
        fn gen_one(r: &mut Rng) -> u16 {
            r.next_u64() as u16
        }
    }
    impl Gen for i64 {
        fn gen_one(r: &mut Rng) -> i64 {
            r.next_u64() as i64
        }
    }
    impl Gen for f32 {
        fn gen_one(r: &mut Rng) -> f32 {
            (r.below(1 << 22) as f32) * 0.25 - 1000.0
        }
    }
    impl Gen for f64 {
        fn gen_one(r: &mut Rng) -> f64 {
            (r.below(1 << 50) as f64) * 0.125 - 1.0e9
        }
    }
    fn gen_vec<T: Gen>(seed: u64, p: usize) -> Vec<T> {
        let mut r = Rng::new(seed ^ 0x7E9D);
        (0..p).map(|_| T::gen_one(&mut r)).collect()
    }
    fn gen_cvec<T: Gen>(seed: u64, p: usize) -> Vec<Complex<T>> {
        let mut r = Rng::new(seed ^ 0xC0_4B1E);
        (0..p).map(|_| Complex { re: T::gen_one(&mut r), im: T::gen_one(&mut r) }).collect()
    }

    /// Producer-side `Read`: the payload, with seeded short reads and sleeps, failing at byte `fail`.
    struct SrcRead {
        data: Vec<u8>,
        pos: usize,
        fail: Option<usize>,
        delay: bool,
        r: Rng,
    }
    impl Read for SrcRead {
        fn read(&mut self, out: &mut [u8]) -> io::Result<usize> {
            if let Some(k) = self.fail {
                if self.pos >= k {
                    return Err(io::Error::other(format!("injected reader failure at byte {k}")));
                }
            }
            let mut lim = self.data.len();
            if let Some(k) = self.fail {
                lim = lim.min(k);
            }
            let mut n = out.len().min(lim - self.pos);
            if self.delay && n > 1 {
                n = 1 + self.r.usize_below(n);
                if self.r.chance(1, 6) {
                    std::thread::sleep(Duration::from_micros(self.r.below(400)));
                }
            }
            out[..n].copy_from_slice(&self.data[self.pos..self.pos + n]);
            self.pos += n;
            Ok(n)
        }
    }

    fn write_body(s: &Spec, w: &mut dyn Write) -> io::Result<()> {
        let data = svs::payload(s.seed, s.p, s.compressible);
        let mut r = Rng::new(s.seed ^ 0x3217E);
        let end = s.fail.map(|k| k.min(data.len())).unwrap_or(data.len());
        let mut pos = 0;
        while pos < end {
            let mut n = end - pos;
            if s.delay {
                n = 1 + r.usize_below(n.min(70_000));
                if r.chance(1, 6) {
                    std::thread::sleep(Duration::from_micros(r.below(400)));
                }
                if r.chance(1, 5) {
                    w.flush()?;
                }
            }
            w.write_all(&data[pos..pos + n])?;
            pos += n;
        }
        if let Some(k) = s.fail {
            if s.panic {
                panic!("injected writer panic at byte {k}");
            }
            return Err(io::Error::other(format!("injected writer failure at byte {k}")));
        }
        Ok(())
    }

    type BoxWriter = Box<dyn FnOnce(&mut dyn Write) -> io::Result<()> + Send>;

    fn typed_router<T: repe::BeveTypedSlice + Gen + Send + 'static>(opts: StreamOpts) -> Router {
        Router::new().with_typed_value_stream(|res: &str| Spec::parse(res).map(|s| gen_vec::<T>(s.seed, s.p)), opts)
    }
    fn complex_router<T: repe::BeveTypedSlice + Gen + Send + 'static>(opts: StreamOpts) -> Router {
        Router::new().with_complex_value_stream(|res: &str| Spec::parse(res).map(|s| gen_cvec::<T>(s.seed, s.p)), opts)
    }

    fn build_router(kind: Kind, opts: StreamOpts) -> Router {
        match kind {
            Kind::Value => Router::new().with_value_stream(|res: &str| Spec::parse(res).map(|s| make_val(&s)), opts),
            Kind::Typed(Elem::U8) => typed_router::<u8>(opts),
            Kind::Typed(Elem::U16) => typed_router::<u16>(opts),
            Kind::Typed(Elem::I64) => typed_router::<i64>(opts),
            Kind::Typed(Elem::F32) => typed_router::<f32>(opts),
            Kind::Typed(Elem::F64) => typed_router::<f64>(opts),
            Kind::Complex(Elem::F64) => complex_router::<f64>(opts),
            Kind::Complex(_) => complex_router::<f32>(opts),
            Kind::Reader => Router::new().with_reader_stream(
                |res: &str| {
                    Spec::parse(res).map(|s| SrcRead { data: svs::payload(s.seed, s.p, s.compressible), pos: 0, fail: s.fail, delay: s.delay, r: Rng::new(s.seed ^ 0x4EAD) })
                },
                opts,
            ),
            Kind::Writer => Router::new().with_writer_stream(
                BodyFormat::RawBinary,
                |res: &str| Spec::parse(res).map(|s| Box::new(move |w: &mut dyn Write| write_body(&s, w)) as BoxWriter),
                opts,
            ),
        }
    }

    /// The producer's logical bytes, computed without the streaming serializers.
    fn logical_bytes(kind: Kind, s: &Spec) -> Vec<u8> {
        match kind {
            Kind::Value => match make_val(s) {
                ValT::F(pad) => beve::to_vec(&FailDocShape { pad: &pad, boom: 0 }).expect("beve"),
                v => beve::to_vec(&v).expect("beve"),
            },
            Kind::Typed(Elem::U8) => beve::to_vec_typed_slice(&gen_vec::<u8>(s.seed, s.p)),
            Kind::Typed(Elem::U16) => beve::to_vec_typed_slice(&gen_vec::<u16>(s.seed, s.p)),
            Kind::Typed(Elem::I64) => beve::to_vec_typed_slice(&gen_vec::<i64>(s.seed, s.p)),
            Kind::Typed(Elem::F32) => beve::to_vec_typed_slice(&gen_vec::<f32>(s.seed, s.p)),
            Kind::Typed(Elem::F64) => beve::to_vec_typed_slice(&gen_vec::<f64>(s.seed, s.p)),
            Kind::Complex(Elem::F64) => beve::to_vec_complex_slice(&gen_cvec::<f64>(s.seed, s.p)),
            Kind::Complex(_) => beve::to_vec_complex_slice(&gen_cvec::<f32>(s.seed, s.p)),
            Kind::Reader | Kind::Writer => svs::payload(s.seed, s.p, s.compressible),
        }
    }

    fn elem_size(e: Elem) -> usize {
        match e {
            Elem::U8 => 1,
            Elem::U16 => 2,
            Elem::F32 => 4,
            Elem::I64 | Elem::F64 => 8,
        }
    }

    /// Choose the size parameter so the stream's *wire* length (logical for none, compressed for zstd
    /// where that is controllable) lands on `target` as closely as the kind allows.
    fn param_for(kind: Kind, zstd: bool, target: usize, proto: &Spec) -> usize {
        let len_of = |p: usize| -> usize {
            let mut s = proto.clone();
            s.p = p;
            let l = logical_bytes(kind, &s);
            if zstd && matches!(kind, Kind::Reader | Kind::Writer) && !proto.compressible { svs::zstd_compress(&l).len() } else { l.len() }
        };
        let unit = match kind {
            Kind::Typed(e) => elem_size(e),
            Kind::Complex(Elem::F64) => 16,
            Kind::Complex(_) => 8,
            _ => 1,
        };
        let base = len_of(0);
        if target <= base {
            return 0;
        }
        let mut p = (target - base) / unit;
        // overhead grows with p (length prefixes, block headers): walk down to the largest p with len <= target
        let mut guard = 0;
        while p > 0 && len_of(p) > target && guard < 40 {
            let over = len_of(p) - target;
            p -= (over / unit).max(1).min(p);
            guard += 1;
        }
        p
    }

    // ------------------------------------------------------------------ servers

    #[derive(Clone, Copy, Debug, PartialEq, Eq, Hash)]
    pub enum Tr {
        Tcp,
        Ws,
    }

    #[derive(Clone, Debug, Hash, PartialEq, Eq)]
    pub struct Cfg {
        tr: Tr,
        kind: Kind,
        chunk: usize,
        depth: usize,
        zstd: bool,
        /// 0 = the boundary grid; 1 = the gated-producer family of the stage (raw: concurrent `next`
        /// on one stream id; pullers: a foreign cancel in the middle of a pull); 2 = the bystander
        /// family (stale `next` / `cancel` for a released stream id while other connections' streams
        /// are live); 3 = the slow-producer family (pullers: a producer that goes quiet mid-stream); 4 = the
        /// many-open-sessions family (slow healthy transfers among hundreds of other open sessions)
        fam: u8,
    }
    impl Cfg {
        fn opts(&self) -> StreamOpts {
            StreamOpts { chunk_bytes: self.chunk, compression: if self.zstd { Compression::Zstd } else { Compression::None }, zstd_level: 3, session_depth: self.depth }
        }
        fn json(&self) -> Value {
            json!({"transport": format!("{:?}", self.tr), "kind": self.kind.name(), "chunk_bytes": self.chunk, "session_depth": self.depth, "zstd": self.zstd, "family": match self.fam { 0 => "grid", 1 => "gated", 2 => "bystander", 3 => "slow-producer", _ => "many-open-sessions" }})
        }
    }

    struct Srv {
        addr: SocketAddr,
        ws_task: Option<tokio::task::JoinHandle<()>>,
    }
    impl Drop for Srv {
        fn drop(&mut self) {
            if let Some(t) = self.ws_task.take() {
                t.abort();
            }
        }
    }

    fn start_server(cfg: &Cfg, rt: &Arc<tokio::runtime::Runtime>) -> Result<Srv, String> {
        start_server_with(build_router(cfg.kind, cfg.opts()), cfg.tr, rt)
    }

    fn start_server_with(router: Router, tr: Tr, rt: &Arc<tokio::runtime::Runtime>) -> Result<Srv, String> {
        match tr {
            Tr::Tcp => {
                let server = Server::new(router);
                let l = server.listen("127.0.0.1:0").map_err(|e| format!("bind: {e}"))?;
                let addr = l.local_addr().map_err(|e| e.to_string())?;
                std::thread::Builder::new().stack_size(256 << 10).spawn(move || {
                    let _ = server.serve(l);
                }).map_err(|e| format!("spawn: {e}"))?;
                Ok(Srv { addr, ws_task: None })
            }
            Tr::Ws => {
                let l = rt.block_on(WebSocketServer::listen("127.0.0.1:0")).map_err(|e| format!("ws bind: {e}"))?;
                let addr = l.local_addr().map_err(|e| e.to_string())?;
                let t = rt.spawn(async move {
                    // no per-connection cap on off-reader handlers: the families of this stage share one connection and park many
                    // `next` requests at once; admission control (its refusals are C16's subject) must not turn the harness's own
                    // concurrency into refused pulls
                    let _ = WebSocketServer::new(router).with_offreader_limit(0).serve_listener(l, "/repe").await;
                });
                Ok(Srv { addr, ws_task: Some(t) })
            }
        }
    }

    // ------------------------------------------------------------------ gated producers

    /// Upper bound on how long a producer stays parked when the harness never opens its gate.
    const GATE_PARK_MAX: Duration = Duration::from_secs(25);

    #[derive(Default)]
    struct GateSt {
        parked: bool,
        open: bool,
        timed_out: bool,
        /// the harness stopped caring (the pull this gate belongs to has returned)
        abandoned: bool,
        parked_at: Option<Instant>,
        opened_at: Option<Instant>,
    }
    /// A one-shot gate: the producer parks on it (and thereby tells the harness it was asked for the
    /// bytes behind the gate); the harness opens it.
    #[derive(Default)]
    pub struct Gate {
        st: Mutex<GateSt>,
        cv: Condvar,
    }
    impl Gate {
        fn park(&self, max: Duration) {
            let mut g = self.st.lock().unwrap_or_else(|e| e.into_inner());
            g.parked = true;
            g.parked_at = Some(Instant::now());
            self.cv.notify_all();
            let (mut g, _) = self.cv.wait_timeout_while(g, max, |s| !s.open).unwrap_or_else(|e| e.into_inner());
            if !g.open {
                g.timed_out = true;
            }
        }
        fn wait_parked(&self, d: Duration) -> bool {
            let g = self.st.lock().unwrap_or_else(|e| e.into_inner());
            let (g, _) = self.cv.wait_timeout_while(g, d, |s| !s.parked && !s.abandoned).unwrap_or_else(|e| e.into_inner());
            g.parked
        }
        /// Wake a `wait_parked`: the pull returned, the producer will not park any more (or nobody waits for it).
        fn abandon(&self) {
            self.st.lock().unwrap_or_else(|e| e.into_inner()).abandoned = true;
            self.cv.notify_all();
        }
        fn open(&self) {
            let mut g = self.st.lock().unwrap_or_else(|e| e.into_inner());
            g.open = true;
            if g.opened_at.is_none() {
                g.opened_at = Some(Instant::now());
            }
            drop(g);
            self.cv.notify_all();
        }
        /// (when the producer parked, when the harness opened the gate)
        fn times(&self) -> (Option<Instant>, Option<Instant>) {
            let g = self.st.lock().unwrap_or_else(|e| e.into_inner());
            (g.parked_at, g.opened_at)
        }
        fn timed_out(&self) -> bool {
            self.st.lock().unwrap_or_else(|e| e.into_inner()).timed_out
        }
    }

    /// A producer source with a gate: `data[..park_at]` is emitted, the producer parks, then the rest
    /// is emitted and the producer finishes (or fails / panics when `fail`).
    pub struct GSrc {
        data: Vec<u8>,
        park_at: Option<usize>,
        fail: bool,
        panic: bool,
        /// upper bound on the time this producer stays parked
        park_max: Duration,
        gate: Gate,
    }

    /// Per-server registry of gated sources, addressed by the resource key `gate:<id>`.
    #[derive(Default)]
    pub struct GateTable {
        next: AtomicU64,
        m: Mutex<HashMap<u64, Arc<GSrc>>>,
    }
    impl GateTable {
        fn add(&self, data: Vec<u8>, park_at: Option<usize>, fail: bool, panic: bool) -> (String, u64, Arc<GSrc>) {
            self.add_with_park_max(data, park_at, fail, panic, GATE_PARK_MAX)
        }
        fn add_with_park_max(&self, data: Vec<u8>, park_at: Option<usize>, fail: bool, panic: bool, park_max: Duration) -> (String, u64, Arc<GSrc>) {
            let id = self.next.fetch_add(1, Ordering::Relaxed) + 1;
            let src = Arc::new(GSrc { data, park_at, fail, panic, park_max, gate: Gate::default() });
            self.m.lock().unwrap().insert(id, src.clone());
            (format!("gate:{id}"), id, src)
        }
        fn remove(&self, id: u64) {
            self.m.lock().unwrap().remove(&id);
        }
        fn resolve(&self, res: &str) -> Option<Arc<GSrc>> {
            let id: u64 = res.strip_prefix("gate:")?.parse().ok()?;
            self.m.lock().unwrap().get(&id).cloned()
        }
    }

    struct GRead {
        src: Arc<GSrc>,
        pos: usize,
        passed: bool,
    }
    impl Read for GRead {
        fn read(&mut self, out: &mut [u8]) -> io::Result<usize> {
            if !self.passed && self.src.park_at.map(|p| p.min(self.src.data.len())) == Some(self.pos) {
                self.src.gate.park(self.src.park_max);
                self.passed = true;
            }
            let len = self.src.data.len();
            if self.pos >= len {
                return if self.src.fail { Err(io::Error::other("injected gated reader failure")) } else { Ok(0) };
            }
            let mut lim = len;
            if !self.passed {
                if let Some(p) = self.src.park_at {
                    lim = lim.min(p);
                }
            }
            let n = out.len().min(lim - self.pos);
            out[..n].copy_from_slice(&self.src.data[self.pos..self.pos + n]);
            self.pos += n;
            Ok(n)
        }
    }

    fn gwrite(src: &GSrc, w: &mut dyn Write) -> io::Result<()> {
        let len = src.data.len();
        let p = src.park_at.unwrap_or(len).min(len);
        w.write_all(&src.data[..p])?;
        if src.park_at.is_some() {
            src.gate.park(src.park_max);
        }
        w.write_all(&src.data[p..])?;
        if src.fail {
            if src.panic {
                panic!("injected gated writer panic");
            }
            return Err(io::Error::other("injected gated writer failure"));
        }
        Ok(())
    }

    /// Reader kind: `with_reader_stream`; writer kind: `with_writer_stream` tagged raw binary; the BEVE
    /// kinds: `with_writer_stream` tagged BEVE (the harness writes the independently encoded bytes).
    fn build_gated_router(kind: Kind, opts: StreamOpts, table: Arc<GateTable>) -> Router {
        match kind {
            Kind::Reader => Router::new().with_reader_stream(move |res: &str| table.resolve(res).map(|src| GRead { src, pos: 0, passed: false }), opts),
            k => {
                let fmt = if k.beve() { BodyFormat::Beve } else { BodyFormat::RawBinary };
                Router::new().with_writer_stream(fmt, move |res: &str| table.resolve(res).map(|src| Box::new(move |w: &mut dyn Write| gwrite(&src, w)) as BoxWriter), opts)
            }
        }
    }

    // ------------------------------------------------------------------ accumulation across worker threads

    #[derive(Default)]
    struct Acc {
        evals: u64,
        distinct: Vec<u64>,
        viol: Vec<(String, String, Value)>,
        counts: BTreeMap<String, u64>,
        inconclusive: Vec<String>,
        samples: Vec<Value>,
    }
    impl Acc {
        fn count(&mut self, k: &str, n: u64) {
            *self.counts.entry(k.to_string()).or_insert(0) += n;
        }
        fn violation(&mut self, sig: String, detail: String, replay: Value) {
            if self.viol.len() < 200 {
                self.viol.push((sig, detail, replay));
            }
        }
        fn merge_into(self, rep: &mut Report) {
            rep.evaluations += self.evals;
            for d in self.distinct {
                rep.distinct(&d);
            }
            for (k, v) in self.counts {
                rep.count(&k, v);
            }
            for (s, d, r) in self.viol {
                rep.violation(s, d, r);
            }
            for i in self.inconclusive {
                rep.inconclusive(i);
            }
            for s in self.samples {
                rep.sample(s);
            }
        }
    }

    // ------------------------------------------------------------------ the grid

    const CHUNKS: [usize; 8] = [1, 2, 3, 7, 64, 4096, 65536, 1 << 20];

    fn kmax(chunk: usize, thorough: bool) -> usize {
        match (chunk, thorough) {
            (c, _) if c <= 64 => 5,
            (4096, false) => 3,
            (4096, true) => 5,
            (65536, false) => 2,
            (65536, true) => 5,
            (_, false) => 1,
            (_, true) => 2,
        }
    }

    fn targets(chunk: usize, thorough: bool) -> Vec<usize> {
        let mut t = vec![0usize];
        for k in 1..=kmax(chunk, thorough) {
            for d in [-1i64, 0, 1] {
                let v = (k * chunk) as i64 + d;
                if v >= 0 {
                    t.push(v as usize);
                }
            }
        }
        t.sort();
        t.dedup();
        t
    }

    fn grid(args: &Args, all_depths: bool, transports_for: impl Fn(usize, &mut Rng) -> Vec<Tr>) -> Vec<Cfg> {
        let mut rng = Rng::new(args.seed ^ 0xC09_64D);
        let mut v = vec![];
        let mut i = 0usize;
        for &chunk in &CHUNKS {
            for zstd in [false, true] {
                let kinds = [
                    Kind::Value,
                    Kind::Typed(ELEMS[(i + args.seed as usize) % 5]),
                    Kind::Complex(if (i + args.seed as usize) % 2 == 0 { Elem::F32 } else { Elem::F64 }),
                    Kind::Reader,
                    Kind::Writer,
                ];
                for kind in kinds {
                    i += 1;
                    let depths: Vec<usize> = if args.thorough() || all_depths {
                        (0..=8).collect()
                    } else {
                        let mut d = vec![0usize, 1, 2 + rng.usize_below(7)];
                        if rng.coin() {
                            d[1] = 1 + rng.usize_below(8);
                        }
                        d.dedup();
                        d
                    };
                    for depth in depths {
                        for tr in transports_for(i + depth, &mut rng) {
                            v.push(Cfg { tr, kind, chunk, depth, zstd, fam: 0 });
                        }
                    }
                }
            }
        }
        v
    }

    /// Run `work` over the configurations on a pool of detached threads with a wall-clock watchdog.
    fn run_pool(rep: &mut Report, args: &Args, cfgs: Vec<Cfg>, work: fn(&Cfg, u64, bool, &Arc<tokio::runtime::Runtime>, &mut Acc)) {
        let rt = Arc::new(tokio::runtime::Builder::new_multi_thread().worker_threads(4).enable_all().build().expect("tokio runtime"));
        let total = cfgs.len();
        let queue = Arc::new(std::sync::Mutex::new(cfgs.into_iter().enumerate().collect::<Vec<_>>()));
        queue.lock().unwrap().reverse();
        let in_flight = Arc::new(std::sync::Mutex::new(BTreeMap::<usize, String>::new()));
        let (tx, rx) = mpsc::channel::<Acc>();
        let nthreads = 12;
        let thorough = args.thorough();
        let seed = args.seed;
        for _ in 0..nthreads {
            let (queue, tx, rt, in_flight) = (queue.clone(), tx.clone(), rt.clone(), in_flight.clone());
            std::thread::spawn(move || {
                loop {
                    let Some((idx, cfg)) = queue.lock().unwrap().pop() else { break };
                    in_flight.lock().unwrap().insert(idx, format!("{cfg:?}"));
                    let mut acc = Acc::default();
                    let r = catching(|| work(&cfg, seed ^ (idx as u64).wrapping_mul(0x9E37_79B9), thorough, &rt, &mut acc));
                    if let Err(p) = r {
                        acc.inconclusive.push(format!("harness panic in {cfg:?}: {p}"));
                    }
                    acc.count("configs_run", 1);
                    in_flight.lock().unwrap().remove(&idx);
                    if tx.send(acc).is_err() {
                        break;
                    }
                }
            });
        }
        drop(tx);
        let hb = Heartbeat::start();
        let wall = Duration::from_secs(if thorough { 440 } else { 40 });
        let start = Instant::now();
        let mut done = 0usize;
        while done < total {
            let left = wall.saturating_sub(start.elapsed());
            match rx.recv_timeout(left.max(Duration::from_millis(1))) {
                Ok(acc) => {
                    acc.merge_into(rep);
                    done += 1;
                }
                Err(mpsc::RecvTimeoutError::Timeout) => {
                    let fl: Vec<String> = in_flight.lock().unwrap().values().cloned().collect();
                    rep.inconclusive(format!(
                        "wall-clock budget exhausted after {done}/{total} configurations (max machine stall {} ms); in flight: {}",
                        hb.max_gap_ms(),
                        trunc(&fl.join(" | "), 600)
                    ));
                    break;
                }
                Err(mpsc::RecvTimeoutError::Disconnected) => break,
            }
        }
        rep.set("configs_total", json!(total));
        rep.set("configs_completed", json!(done));
        // leave the runtime to the process exit: dropping it would wait for blocked tasks
        std::mem::forget(rt);
    }

    pub fn run(args: &Args) -> Report {
        match args.stage.as_str() {
            "pullers" => run_pullers(args),
            _ => run_raw(args),
        }
    }

    // ================================================================== stage raw

    #[derive(Clone, Debug, PartialEq, Eq, Hash)]
    enum Scen {
        Full,
        CancelAfter { chunks: usize, notify: bool },
        Fail,
    }

    /// State of one raw pull.
    struct Pull {
        spec: Spec,
        scen: Scen,
        expected: Vec<u8>,
        sid: u64,
        chunks: Vec<(usize, bool)>,
        wire: Vec<u8>,
        finished: Option<End>,
    }
    #[derive(Debug, Clone, PartialEq)]
    enum End {
        Last,
        ErrResp(u32, String),
        Cancelled,
    }

    fn ctx_json(cfg: &Cfg, p: &Pull) -> Value {
        json!({"cfg": cfg.json(), "resource": p.spec.res(), "scenario": format!("{:?}", p.scen), "logical_len": p.expected.len(),
               "chunks": p.chunks.iter().take(40).map(|(l, e)| format!("{l}{}", if *e { "!" } else { "" })).collect::<Vec<_>>(), "chunks_total": p.chunks.len()})
    }

    fn first_diff(a: &[u8], b: &[u8]) -> usize {
        a.iter().zip(b.iter()).position(|(x, y)| x != y).unwrap_or(a.len().min(b.len()))
    }

    /// One `next` for pull `p`. Returns Ok(true) when the pull reached a terminal state.
    fn step<T: RawTransport>(cl: &mut RawSvs<T>, cfg: &Cfg, p: &mut Pull, acc: &mut Acc) -> Result<bool, String> {
        if let Scen::CancelAfter { chunks, notify } = p.scen {
            if p.chunks.len() >= chunks {
                let ec = cl.cancel(p.sid, notify)?;
                if ec != 0 {
                    acc.violation(format!("C09:cancel-refused:{}", cfg.kind.class()), format!("request-form cancel answered ec={ec}"), ctx_json(cfg, p));
                }
                p.finished = Some(End::Cancelled);
                return Ok(true);
            }
        }
        // an upper bound on any legitimate stream: logical bytes, zstd worst-case expansion, one chunk per byte
        let bound_bytes = p.expected.len() + p.expected.len() / 64 + 1024;
        match cl.next(p.sid)? {
            NextOut::ErrResp { ec, msg } => {
                p.finished = Some(End::ErrResp(ec, msg));
                Ok(true)
            }
            NextOut::Chunk { bytes, last, query } => {
                acc.count("chunks_observed", 1);
                if query.len() != 1 || query[0] > 1 {
                    acc.violation(
                        format!("C09:last-flag-encoding:{}", cfg.kind.class()),
                        format!("chunk response query is {} instead of one byte 0/1", hex_trunc(&query, 16)),
                        ctx_json(cfg, p),
                    );
                }
                if bytes.len() > cfg.chunk {
                    acc.count("chunks_larger_than_chunk_bytes", 1);
                }
                p.chunks.push((bytes.len(), last));
                p.wire.extend_from_slice(&bytes);
                if last {
                    p.finished = Some(End::Last);
                    return Ok(true);
                }
                if p.wire.len() > bound_bytes || p.chunks.len() > bound_bytes + 16 {
                    acc.violation(
                        format!("C09:no-end-marker:{}", cfg.kind.class()),
                        format!("{} chunks / {} bytes pulled without an end marker from a {}-byte payload", p.chunks.len(), p.wire.len(), p.expected.len()),
                        ctx_json(cfg, p),
                    );
                    p.finished = Some(End::Cancelled);
                    let _ = cl.cancel(p.sid, false);
                    return Ok(true);
                }
                Ok(false)
            }
        }
    }

    /// After the pull is terminal: judge it and probe `next` past the end / after release.
    fn judge<T: RawTransport>(cl: &mut RawSvs<T>, cfg: &Cfg, p: &Pull, acc: &mut Acc) -> Result<(), String> {
        let class = cfg.kind.class();
        let end = p.finished.clone().unwrap();
        let (logical, clean) = if cfg.zstd { svs::zstd_decompress_lossy(&p.wire) } else { (p.wire.clone(), true) };
        let n_last = p.chunks.iter().filter(|c| c.1).count();
        acc.evals += 1;
        let wire_mod = if cfg.chunk > 1 { p.wire.len() % cfg.chunk } else { 0 };
        let residue = if p.wire.is_empty() { 0 } else if wire_mod == 0 { 1 } else if wire_mod == 1 { 2 } else if wire_mod == cfg.chunk - 1 { 3 } else { 4 };
        acc.distinct.push(hash_of(&("raw", cfg, &p.scen, p.chunks.len().min(7), residue, p.spec.fail.is_some(), p.spec.panic, p.spec.delay, p.spec.compressible)));
        match (&p.scen, &end) {
            (Scen::Full, End::Last) => {
                acc.count("streams_completed", 1);
                if residue == 1 {
                    acc.count("streams_with_wire_len_exact_multiple_of_chunk", 1);
                }
                if n_last != 1 || !p.chunks.last().map(|c| c.1).unwrap_or(false) {
                    acc.violation(format!("C09:end-marker-count:{class}"), format!("{n_last} chunks carry the end marker"), ctx_json(cfg, p));
                }
                if !clean {
                    acc.violation(
                        format!("C09:content-mismatch:zstd-frame-incomplete:{class}"),
                        format!("the {} pulled bytes are not a complete zstd frame ({} bytes decompressed, {} expected)", p.wire.len(), logical.len(), p.expected.len()),
                        ctx_json(cfg, p),
                    );
                } else if logical != p.expected {
                    let at = first_diff(&logical, &p.expected);
                    let what = if logical.len() < p.expected.len() && at == logical.len() {
                        "truncated"
                    } else if logical.len() > p.expected.len() && at == p.expected.len() {
                        "extra-bytes"
                    } else {
                        "differs"
                    };
                    acc.violation(
                        format!("C09:content-mismatch:{what}:{class}"),
                        format!("pulled {} logical bytes, producer emitted {}; first difference at byte {at}", logical.len(), p.expected.len()),
                        ctx_json(cfg, p),
                    );
                }
                if p.expected.is_empty() && !cfg.zstd && !(p.chunks.len() == 1 && p.chunks[0] == (0, true)) {
                    acc.violation(format!("C09:empty-payload-shape:{class}"), format!("empty payload arrived as chunks {:?}", p.chunks), ctx_json(cfg, p));
                }
                if p.expected.is_empty() && !cfg.zstd {
                    acc.count("empty_payload_single_empty_final_chunk", 1);
                }
            }
            (Scen::Full, End::ErrResp(ec, msg)) => {
                acc.violation(
                    format!("C09:error-instead-of-content:{class}"),
                    format!("healthy producer: next answered ec={ec} '{}' after {} chunks", trunc(msg, 120), p.chunks.len()),
                    ctx_json(cfg, p),
                );
            }
            (Scen::Fail, End::Last) => {
                acc.violation(
                    format!("C09:end-marker-after-producer-failure:{class}"),
                    format!("producer failed (fail={:?}, panic={}) but the stream ended with an end marker after {} bytes", p.spec.fail, p.spec.panic, p.wire.len()),
                    ctx_json(cfg, p),
                );
            }
            (Scen::Fail, End::ErrResp(..)) => {
                acc.count("producer_failures_surfaced_as_error", 1);
                if n_last != 0 {
                    acc.violation(format!("C09:end-marker-after-producer-failure:{class}"), "an end marker preceded the error".into(), ctx_json(cfg, p));
                }
            }
            (Scen::CancelAfter { .. }, End::Cancelled) => acc.count("streams_cancelled_midway", 1),
            (Scen::CancelAfter { .. }, End::Last) => acc.count("streams_completed", 1),
            (s, e) => {
                if !matches!(e, End::Cancelled) {
                    acc.violation(format!("C09:unexpected-end:{class}"), format!("scenario {s:?} ended with {e:?}"), ctx_json(cfg, p));
                }
            }
        }
        // whatever was delivered must be a prefix of what the producer emitted (nothing invented or reordered)
        if !matches!((&p.scen, &end), (Scen::Full, End::Last)) {
            let lim = p.spec.fail.filter(|_| !cfg.kind.beve()).unwrap_or(p.expected.len()).min(p.expected.len());
            if logical.len() > lim || logical[..] != p.expected[..logical.len()] {
                acc.violation(
                    format!("C09:delivered-prefix-differs:{class}"),
                    format!("the {} logical bytes delivered before {end:?} are not a prefix of the producer's first {lim} bytes (first difference at {})", logical.len(), first_diff(&logical, &p.expected)),
                    ctx_json(cfg, p),
                );
            } else {
                acc.count("partial_deliveries_prefix_checked", 1);
            }
        }
        // pulling past the end / after release is an error
        for i in 0..2 {
            match cl.next(p.sid)? {
                NextOut::ErrResp { .. } => acc.count("next_after_release_rejected", 1),
                NextOut::Chunk { bytes, last, .. } => {
                    let when = match end {
                        End::Last => "end",
                        End::ErrResp(..) => "failure",
                        End::Cancelled => "cancel",
                    };
                    acc.violation(
                        format!("C09:next-after-{when}-served:{class}"),
                        format!("next #{} after {when} returned a chunk of {} bytes (last={last}) instead of an error", i + 1, bytes.len()),
                        ctx_json(cfg, p),
                    );
                    break;
                }
            }
        }
        Ok(())
    }

    fn open_pull<T: RawTransport>(cl: &mut RawSvs<T>, cfg: &Cfg, spec: Spec, scen: Scen, acc: &mut Acc) -> Result<Option<Pull>, String> {
        let expected = logical_bytes(cfg.kind, &spec);
        match cl.open(&spec.res())? {
            Err((ec, msg)) => {
                acc.violation(format!("C09:open-refused:{}", cfg.kind.class()), format!("open answered ec={ec} '{}'", trunc(&msg, 120)), json!({"cfg": cfg.json(), "resource": spec.res()}));
                Ok(None)
            }
            Ok(o) => {
                let want_fmt = if cfg.kind.beve() { svs::FMT_BEVE } else { svs::FMT_RAW };
                if o.version != 1 || o.compression != cfg.zstd as u8 || o.format != want_fmt {
                    acc.violation(
                        format!("C09:open-tag-mismatch:{}", cfg.kind.class()),
                        format!("open response {o:?} for a producer configured compression={} format={want_fmt}", cfg.zstd as u8),
                        json!({"cfg": cfg.json(), "resource": spec.res()}),
                    );
                }
                Ok(Some(Pull { spec, scen, expected, sid: o.stream_id, chunks: vec![], wire: vec![], finished: None }))
            }
        }
    }

    fn run_pull<T: RawTransport>(cl: &mut RawSvs<T>, cfg: &Cfg, spec: Spec, scen: Scen, rng: &mut Rng, acc: &mut Acc) -> Result<(), String> {
        let Some(mut p) = open_pull(cl, cfg, spec, scen, acc)? else { return Ok(()) };
        loop {
            if p.spec.delay && rng.chance(1, 5) {
                std::thread::sleep(Duration::from_micros(rng.below(500)));
            }
            if step(cl, cfg, &mut p, acc)? {
                break;
            }
        }
        if acc.samples.is_empty() && p.chunks.len() > 2 && rng.chance(1, 3) {
            acc.samples.push(ctx_json(cfg, &p));
        }
        judge(cl, cfg, &p, acc)
    }

    fn raw_config<T: RawTransport>(cl: &mut RawSvs<T>, cfg: &Cfg, seed: u64, thorough: bool, acc: &mut Acc) -> Result<(), String> {
        let mut rng = Rng::new(seed ^ 0x4A11);
        let targets = targets(cfg.chunk, thorough);
        let proto = |rng: &mut Rng, compressible: bool| Spec { p: 0, seed: rng.below(1 << 40), compressible, fail: None, panic: false, delay: rng.chance(1, 3), vt: rng.below(2) as u8 };
        // (1) the boundary lengths, complete pulls
        let mut specs = vec![];
        for &t in &targets {
            let mut s = proto(&mut rng, false);
            s.p = param_for(cfg.kind, cfg.zstd, t, &s);
            specs.push(s.clone());
            run_pull(cl, cfg, s, Scen::Full, &mut rng, acc)?;
        }
        // (1b) compressible payloads whose *logical* length sits on the boundaries
        if matches!(cfg.kind, Kind::Reader | Kind::Writer) {
            for _ in 0..3 {
                let mut s = proto(&mut rng, true);
                s.p = *rng.pick(&targets) * if cfg.zstd && cfg.chunk < 4096 { 1 + rng.usize_below(40) } else { 1 };
                run_pull(cl, cfg, s, Scen::Full, &mut rng, acc)?;
            }
        }
        // (2) release midway, then next must be refused
        for _ in 0..2 {
            let s = rng.pick(&specs).clone();
            let total_chunks = logical_bytes(cfg.kind, &s).len() / cfg.chunk + 1;
            let scen = Scen::CancelAfter { chunks: rng.usize_below(total_chunks.min(12) + 1), notify: rng.coin() };
            run_pull(cl, cfg, s, scen, &mut rng, acc)?;
        }
        // (3) failing producers
        if matches!(cfg.kind, Kind::Reader | Kind::Writer | Kind::Value) {
            let c = cfg.chunk;
            let big = *targets.last().unwrap();
            let mut ks = vec![0usize, 1, c.saturating_sub(1), c, c + 1, big.saturating_sub(1), big];
            ks.retain(|k| *k <= big);
            ks.sort();
            ks.dedup();
            let n = if thorough { ks.len() } else { 3.min(ks.len()) };
            rng.shuffle(&mut ks);
            for &k in ks.iter().take(n) {
                let cz = rng.coin();
                let mut s = proto(&mut rng, cz);
                s.p = if cfg.kind == Kind::Value { k } else { big };
                s.fail = Some(k);
                s.panic = cfg.kind == Kind::Writer && rng.chance(1, 3);
                s.vt = 0;
                run_pull(cl, cfg, s, Scen::Fail, &mut rng, acc)?;
            }
        }
        // (4) two streams interleaved on one connection
        if specs.len() >= 2 {
            let a = rng.pick(&specs).clone();
            let mut b = rng.pick(&specs).clone();
            b.seed ^= 0x55;
            let (Some(mut pa), Some(mut pb)) = (open_pull(cl, cfg, a, Scen::Full, acc)?, open_pull(cl, cfg, b, Scen::Full, acc)?) else { return Ok(()) };
            if pa.sid == pb.sid {
                acc.violation(format!("C09:duplicate-stream-id:{}", cfg.kind.class()), format!("two opens returned stream_id {}", pa.sid), ctx_json(cfg, &pa));
            }
            while pa.finished.is_none() || pb.finished.is_none() {
                let pick_a = if pa.finished.is_some() { false } else if pb.finished.is_some() { true } else { rng.coin() };
                if pick_a {
                    step(cl, cfg, &mut pa, acc)?;
                } else {
                    step(cl, cfg, &mut pb, acc)?;
                }
            }
            acc.count("interleaved_stream_pairs", 1);
            judge(cl, cfg, &pa, acc)?;
            judge(cl, cfg, &pb, acc)?;
        }
        Ok(())
    }

    // ------------------------------------------------------------------ stage raw, gated family: concurrent `next` on one stream id

    #[derive(Clone, Debug)]
    struct ConcPlan {
        n: usize,
        park_at: usize,
        fail: bool,
        panic: bool,
        /// number of `next` requests put in flight together
        k: usize,
        /// all of them pipelined on one connection (WebSocket server only: off-reader handlers)
        same_conn: bool,
        /// sequential pulls before the concurrent round
        pre: usize,
        /// `pre` is everything deliverable before the gate, so the first concurrent `next` parks on the producer
        targeted: bool,
        /// the order in which the requesters write their request, and the pauses between the writes
        order: Vec<usize>,
        gaps_us: Vec<u64>,
        /// pause between the last request written (and the producer seen parked) and opening the gate
        open_delay_us: u64,
        data_seed: u64,
    }
    impl ConcPlan {
        fn json(&self, cfg: &Cfg) -> Value {
            json!({"cfg": cfg.json(), "payload_len": self.n, "park_at": self.park_at, "producer_fails": self.fail, "producer_panics": self.panic, "in_flight": self.k,
                   "same_connection": self.same_conn, "sequential_pulls_before": self.pre, "targeted": self.targeted, "write_order": self.order, "write_gaps_us": self.gaps_us,
                   "open_delay_us": self.open_delay_us, "data_seed": self.data_seed})
        }
    }

    fn conc_plans(cfg: &Cfg, rng: &mut Rng) -> Vec<ConcPlan> {
        let c = cfg.chunk;
        let mut lens = vec![0usize, 1];
        if !cfg.zstd {
            let tmax = if c <= 64 { 4 } else if c <= 4096 { 3 } else { 2 };
            for t in 1..=tmax {
                lens.extend([t * c, t * c + 1, (t * c).saturating_sub(1)]);
            }
            if c > 2 {
                lens.push(1 + rng.usize_below(c - 1));
            }
        } else {
            // inputs this small stay inside the zstd encoder until it is finished: the whole wire stream follows the gate
            lens.extend([40, 100 + rng.usize_below(200)]);
            if c >= 4096 {
                lens.extend([3000, 1 + rng.usize_below(16_000)]);
            }
        }
        lens.sort();
        lens.dedup();
        let mut plans = vec![];
        for &n in &lens {
            for fail in [false, true] {
                let park_at = if rng.chance(2, 3) { n } else { rng.usize_below(n + 1) };
                let k = 2 + rng.usize_below(2);
                let deliverable = if cfg.zstd { 0 } else { (park_at / c).saturating_sub(1) };
                let pre = if rng.chance(3, 4) { deliverable } else { rng.usize_below(deliverable + 1) };
                let mut order: Vec<usize> = (0..k).collect();
                rng.shuffle(&mut order);
                plans.push(ConcPlan {
                    n,
                    park_at,
                    fail,
                    panic: fail && cfg.kind == Kind::Writer && rng.chance(1, 4),
                    k,
                    same_conn: cfg.tr == Tr::Ws && rng.chance(1, 3),
                    pre,
                    targeted: pre == deliverable,
                    order,
                    gaps_us: (1..k).map(|_| *rng.pick(&[0u64, 0, 30, 200, 1000, 3000])).collect(),
                    open_delay_us: *rng.pick(&[0u64, 200, 1000, 2000, 4000, 10_000]),
                    data_seed: rng.below(1 << 40),
                });
            }
        }
        plans
    }

    fn terminal(o: &NextOut) -> bool {
        matches!(o, NextOut::ErrResp { .. } | NextOut::Chunk { last: true, .. })
    }
    fn out_tag(o: &NextOut) -> String {
        match o {
            NextOut::Chunk { bytes, last, .. } => format!("{}{}", bytes.len(), if *last { "!" } else { "" }),
            NextOut::ErrResp { ec, msg } => format!("E{ec}:{}", trunc(msg, 48)),
        }
    }

    /// Walk one candidate total order of the responses to `next` on one stream.
    fn conc_walk(order: &[&NextOut], healthy: bool, expected: &[u8], zstd: bool) -> Result<(), (&'static str, String)> {
        let mut wire: Vec<u8> = vec![];
        let mut state = 0u8; // 0 live, 1 ended (end marker seen), 2 failed (error seen)
        for (i, r) in order.iter().enumerate() {
            match (state, r) {
                (0, NextOut::Chunk { bytes, last, .. }) => {
                    wire.extend_from_slice(bytes);
                    if *last {
                        state = 1;
                    }
                }
                (0, NextOut::ErrResp { .. }) => state = 2,
                (_, NextOut::ErrResp { .. }) => {}
                (1, NextOut::Chunk { bytes, last, .. }) => {
                    return Err(("next-after-end-served", format!("response #{i} is a chunk of {} bytes (last={last}) although the end marker was already delivered", bytes.len())));
                }
                (_, NextOut::Chunk { bytes, last, .. }) => {
                    return Err(("next-after-failure-served", format!("response #{i} is a chunk of {} bytes (last={last}) although an error was already delivered", bytes.len())));
                }
            }
        }
        let (logical, clean) = if zstd { svs::zstd_decompress_lossy(&wire) } else { (wire, true) };
        if healthy {
            match state {
                1 => {}
                2 => return Err(("error-instead-of-content", "a healthy producer's stream ended with an error response".into())),
                _ => return Err(("no-end-marker", "no response carried the end marker".into())),
            }
            if !clean || logical != expected {
                return Err(("content-mismatch", format!("the chunks deliver {} logical bytes (complete frame: {clean}), the producer emitted {}; first difference at byte {}", logical.len(), expected.len(), first_diff(&logical, expected))));
            }
        } else {
            match state {
                2 => {}
                1 => return Err(("end-marker-after-producer-failure", "the producer failed but a response carried the end marker".into())),
                _ => return Err(("no-error-after-producer-failure", "the producer failed but no response was an error".into())),
            }
            if logical.len() > expected.len() || logical[..] != expected[..logical.len()] {
                return Err(("delivered-prefix-differs", format!("the {} logical bytes delivered before the failure are not a prefix of the producer's bytes (first difference at {})", logical.len(), first_diff(&logical, expected))));
            }
        }
        Ok(())
    }

    fn permutations(k: usize) -> Vec<Vec<usize>> {
        fn go(cur: &mut Vec<usize>, used: &mut Vec<bool>, out: &mut Vec<Vec<usize>>) {
            if cur.len() == used.len() {
                out.push(cur.clone());
                return;
            }
            for i in 0..used.len() {
                if !used[i] {
                    used[i] = true;
                    cur.push(i);
                    go(cur, used, out);
                    cur.pop();
                    used[i] = false;
                }
            }
        }
        let mut out = vec![];
        go(&mut vec![], &mut vec![false; k], &mut out);
        out
    }

    fn conc_scenario<T: RawTransport>(conns: &mut [RawSvs<T>], cfg: &Cfg, table: &GateTable, plan: &ConcPlan, acc: &mut Acc) -> Result<(), String> {
        let class = cfg.kind.class();
        let data = svs::payload(plan.data_seed, plan.n, false);
        let (res, gid, src) = table.add(data.clone(), Some(plan.park_at), plan.fail, plan.panic);
        let sid = match conns[0].open(&res)? {
            Ok(o) => o.stream_id,
            Err((ec, msg)) => {
                table.remove(gid);
                acc.violation(format!("C09:open-refused:{class}"), format!("open of a gated resource answered ec={ec} '{}'", trunc(&msg, 120)), plan.json(cfg));
                return Ok(());
            }
        };
        let k = plan.k;
        let nconn = if plan.same_conn { 1 } else { k };
        // (1) sequential pulls, rotating over the connections
        let mut seq1: Vec<NextOut> = vec![];
        let mut ended = false;
        for i in 0..plan.pre {
            let out = conns[i % nconn].next(sid)?;
            ended = terminal(&out);
            seq1.push(out);
            if ended {
                break;
            }
        }
        // (2) k `next` requests written before the gate is opened
        let mut conc: Vec<NextOut> = vec![];
        let mut parked = false;
        if !ended {
            let mut ids: Vec<(usize, u64)> = vec![];
            for (j, &slot) in plan.order.iter().enumerate() {
                if j > 0 && plan.gaps_us[j - 1] > 0 {
                    std::thread::sleep(Duration::from_micros(plan.gaps_us[j - 1]));
                }
                let ci = if plan.same_conn { 0 } else { slot };
                ids.push((ci, conns[ci].send_next(sid)?));
            }
            if plan.targeted {
                // everything deliverable before the gate was pulled, so the request that wins the session lock drains the
                // channel and the producer reaches the gate: its closure observes that it was asked for the bytes behind it
                parked = src.gate.wait_parked(if cfg.zstd { Duration::from_secs(2) } else { Duration::from_secs(12) });
                if !parked && !cfg.zstd {
                    acc.inconclusive.push(format!("gated producer never reached its gate although {k} next requests were written ({:?})", plan));
                }
            }
            if plan.open_delay_us > 0 {
                std::thread::sleep(Duration::from_micros(plan.open_delay_us));
            }
            src.gate.open();
            let mut got: HashMap<(usize, u64), NextOut> = HashMap::new();
            for ci in 0..nconn {
                for _ in 0..ids.iter().filter(|(c, _)| *c == ci).count() {
                    let f = conns[ci].recv_reply()?;
                    got.insert((ci, f.header.id), RawSvs::<T>::next_out(f));
                }
            }
            for (ci, id) in &ids {
                conc.push(got.remove(&(*ci, *id)).ok_or_else(|| format!("no response carries request id {id} on connection {ci}"))?);
            }
            acc.count("conc_next_requests_in_flight_together", k as u64);
            ended = conc.iter().any(terminal);
        } else {
            src.gate.open();
        }
        // (3) sequential tail until a terminal response, then one more `next` per connection
        let mut seq2: Vec<NextOut> = vec![];
        let bound = plan.n + plan.n / 64 + 64;
        let mut i = 0;
        while !ended && i < bound {
            let out = conns[i % nconn].next(sid)?;
            ended = terminal(&out);
            seq2.push(out);
            i += 1;
        }
        let mut after: Vec<NextOut> = vec![];
        if ended {
            for ci in 0..nconn {
                after.push(conns[ci].next(sid)?);
            }
        } else {
            let _ = conns[0].cancel(sid, false);
        }
        table.remove(gid);
        if src.gate.timed_out() {
            acc.inconclusive.push(format!("a gated producer waited {GATE_PARK_MAX:?} for its gate ({:?})", plan));
            return Ok(());
        }
        // ---- oracle over all responses of all connections
        acc.evals += 1;
        acc.count("conc_scenarios", 1);
        acc.count("chunks_observed", (seq1.iter().chain(&conc).chain(&seq2).chain(&after).filter(|o| matches!(o, NextOut::Chunk { .. })).count()) as u64);
        if parked {
            acc.count("conc_producer_seen_parked_with_requests_written", 1);
        }
        let all: Vec<&NextOut> = seq1.iter().chain(&conc).chain(&seq2).chain(&after).collect();
        let n_last = all.iter().filter(|o| matches!(o, NextOut::Chunk { last: true, .. })).count();
        for o in &all {
            if let NextOut::Chunk { query, .. } = o {
                if query.len() != 1 || query[0] > 1 {
                    acc.violation(format!("C09:last-flag-encoding:{class}"), format!("chunk response query is {} instead of one byte 0/1", hex_trunc(query, 16)), plan.json(cfg));
                }
            }
        }
        let tags = |v: &[NextOut]| v.iter().map(out_tag).collect::<Vec<_>>();
        let replay = || {
            let mut j = plan.json(cfg);
            j["responses"] = json!({"sequential_before": tags(&seq1), "in_flight_together(write order)": tags(&conc), "sequential_after": tags(&seq2), "after_the_end": tags(&after)});
            j
        };
        let mut first_err: Option<(&'static str, String)> = None;
        let mut ok = false;
        for perm in permutations(conc.len()) {
            let order: Vec<&NextOut> = seq1.iter().chain(perm.iter().map(|&i| &conc[i])).chain(&seq2).chain(&after).collect();
            match conc_walk(&order, !plan.fail, &data, cfg.zstd) {
                Ok(()) => {
                    ok = true;
                    break;
                }
                Err(e) => {
                    if first_err.is_none() {
                        first_err = Some(e);
                    }
                }
            }
        }
        if !ok {
            let (mut cls, why) = first_err.unwrap_or(("unexplained", String::new()));
            if !plan.fail && n_last >= 2 {
                cls = "duplicate-end-marker";
            } else if plan.fail && n_last >= 1 {
                cls = "end-marker-after-producer-failure";
            }
            acc.violation(
                format!("C09:concurrent-next:{cls}:{class}"),
                format!(
                    "{} next requests for one stream id were in flight together ({}); {n_last} responses carry the end marker; no order of the concurrent responses is a legal stream: {why}",
                    conc.len(),
                    if plan.same_conn { "pipelined on one connection" } else { "one per connection" }
                ),
                replay(),
            );
        } else {
            if plan.fail {
                acc.count("producer_failures_surfaced_as_error", 1);
            } else {
                acc.count("streams_completed", 1);
            }
            acc.count("next_after_release_rejected", after.len() as u64);
        }
        // what the concurrent round looked like (evidence; the verdict above does not depend on it)
        let (mut n_chunk, mut n_err) = (0, 0);
        for (j, o) in conc.iter().enumerate() {
            match o {
                NextOut::Chunk { .. } => {
                    n_chunk += 1;
                    if plan.targeted && j == 0 {
                        acc.count("conc_first_written_request_got_data", 1);
                    } else if plan.targeted {
                        acc.count("conc_later_written_request_got_data", 1);
                    }
                }
                NextOut::ErrResp { msg, .. } => {
                    n_err += 1;
                    if msg.contains("already finished") {
                        acc.count("conc_loser_found_live_session_then_finished", 1);
                    } else if msg.contains("unknown stream_id") {
                        acc.count("conc_loser_found_session_removed", 1);
                    } else {
                        acc.count("conc_producer_failure_delivered", 1);
                    }
                }
            }
        }
        if conc.iter().any(terminal) {
            acc.count("conc_rounds_containing_the_end_or_failure", 1);
        }
        acc.distinct.push(hash_of(&(
            "conc",
            cfg,
            (plan.n / cfg.chunk).min(5),
            if plan.n == 0 { 0 } else { 1 + (plan.n % cfg.chunk).min(2) },
            plan.park_at == plan.n,
            (plan.fail, plan.panic, plan.k, plan.same_conn, plan.targeted),
            (n_chunk, n_err, n_last, seq2.len().min(3)),
            conc.iter().position(|o| matches!(o, NextOut::Chunk { .. })),
        )));
        if acc.samples.len() < 2 && n_err > 0 && n_chunk > 0 {
            acc.samples.push(replay());
        }
        Ok(())
    }

    fn conc_config<T: RawTransport>(conns: &mut [RawSvs<T>], cfg: &Cfg, table: &GateTable, seed: u64, acc: &mut Acc) -> Result<(), String> {
        let mut rng = Rng::new(seed ^ 0xC0_9C0C);
        for plan in conc_plans(cfg, &mut rng) {
            conc_scenario(conns, cfg, table, &plan, acc)?;
        }
        Ok(())
    }

    fn conc_work(cfg: &Cfg, seed: u64, rt: &Arc<tokio::runtime::Runtime>, acc: &mut Acc) {
        let table = Arc::new(GateTable::default());
        let srv = match start_server_with(build_gated_router(cfg.kind, cfg.opts(), table.clone()), cfg.tr, rt) {
            Ok(s) => s,
            Err(e) => {
                acc.inconclusive.push(format!("server start: {e}"));
                return;
            }
        };
        let r = match cfg.tr {
            Tr::Tcp => (0..3).map(|_| TcpRaw::connect(srv.addr).map(RawSvs::new)).collect::<Result<Vec<_>, _>>().and_then(|mut conns| {
                let r = conc_config(&mut conns, cfg, &table, seed, acc);
                acc.count("frames_sent", conns.iter().map(|c| c.frames_sent).sum());
                acc.count("frames_received", conns.iter().map(|c| c.frames_received).sum());
                r
            }),
            Tr::Ws => (0..3).map(|_| WsRaw::connect(rt.clone(), &format!("ws://{}/repe", srv.addr)).map(RawSvs::new)).collect::<Result<Vec<_>, _>>().and_then(|mut conns| {
                let r = conc_config(&mut conns, cfg, &table, seed, acc);
                acc.count("frames_sent", conns.iter().map(|c| c.frames_sent).sum());
                acc.count("frames_received", conns.iter().map(|c| c.frames_received).sum());
                r
            }),
        };
        if let Err(e) = r {
            acc.inconclusive.push(format!("raw client trouble on {cfg:?}: {e}"));
        }
        acc.count("conc_configs", 1);
    }

    /// The configurations of the gated family of stage raw.
    fn conc_cfgs(args: &Args) -> Vec<Cfg> {
        let mut rng = Rng::new(args.seed ^ 0xC09_C0C0);
        let mut v = vec![];
        for tr in [Tr::Tcp, Tr::Ws] {
            for kind in [Kind::Reader, Kind::Writer] {
                for chunk in [1usize, 3, 64, 4096, 65536] {
                    for zstd in [false, true] {
                        let depths: Vec<usize> = if args.thorough() { (0..=8).collect() } else { vec![rng.usize_below(2), 2 + rng.usize_below(7)] };
                        for depth in depths {
                            v.push(Cfg { tr, kind, chunk, depth, zstd, fam: 1 });
                        }
                    }
                }
            }
        }
        v
    }

    fn raw_work(cfg: &Cfg, seed: u64, thorough: bool, rt: &Arc<tokio::runtime::Runtime>, acc: &mut Acc) {
        if cfg.fam == 1 {
            return conc_work(cfg, seed, rt, acc);
        }
        if cfg.fam == 2 {
            return bystander::raw_work(cfg, seed, thorough, rt, acc);
        }
        let srv = match start_server(cfg, rt) {
            Ok(s) => s,
            Err(e) => {
                acc.inconclusive.push(format!("server start: {e}"));
                return;
            }
        };
        let r = match cfg.tr {
            Tr::Tcp => match TcpRaw::connect(srv.addr) {
                Ok(t) => {
                    let mut cl = RawSvs::new(t);
                    let r = raw_config(&mut cl, cfg, seed, thorough, acc);
                    acc.count("frames_sent", cl.frames_sent);
                    acc.count("frames_received", cl.frames_received);
                    r
                }
                Err(e) => Err(e),
            },
            Tr::Ws => match WsRaw::connect(rt.clone(), &format!("ws://{}/repe", srv.addr)) {
                Ok(t) => {
                    let mut cl = RawSvs::new(t);
                    let r = raw_config(&mut cl, cfg, seed, thorough, acc);
                    acc.count("frames_sent", cl.frames_sent);
                    acc.count("frames_received", cl.frames_received);
                    r
                }
                Err(e) => Err(e),
            },
        };
        if let Err(e) = r {
            acc.inconclusive.push(format!("raw client trouble on {cfg:?}: {e}"));
        }
    }

    fn run_raw(args: &Args) -> Report {
        let mut rep = Report::new(
            args,
            "c09-raw-grid",
            "real Server/WebSocketServer, producer kinds value|typed|complex|reader|writer x chunk_bytes {1,2,3,7,64,4096,65536,1MiB} x \
             wire length {0, k*c-1, k*c, k*c+1} x session_depth 0..8 x {none,zstd}; a raw client does open/next/cancel and logs every \
             (chunk,last); oracle: concat (zstd-decoded by the harness) == independently computed logical bytes, exactly one end marker \
             and it is final, empty payload = one empty final chunk, next after end/cancel/failure is an error response, failing \
             producers never yield an end marker, partial deliveries are prefixes; distinct = (config, scenario, chunk count class, \
             wire-length residue class, failure/delay/compressibility flags). Gated family (reader/writer producers that park on a \
             harness gate at byte park_at, mostly just before finishing or failing): after the sequentially deliverable chunks were \
             pulled, 2..3 next requests for the SAME stream id are written (one per raw connection, or pipelined on one WebSocket \
             connection, seeded write order and pauses) before the gate is opened; the producer's gate closure reports that it was \
             asked for the bytes behind the gate; oracle over all responses of all connections: some order of the concurrent \
             responses must be a legal stream (exactly one end marker for a healthy producer, none for a failing one, every \
             response after the end/failure is an error response, chunk bodies concatenate to the producer's bytes / a prefix). \
             Bystander family (three raw connections to one producer, every producer kind, stream ids treated as opaque tokens): a \
             connection pulls a stream to its end / cancels it / lets the producer fail / abandons it mid-way and cancels later; another \
             connection opens a new stream afterwards and pulls a part; the first connection then sends stale next(id) / cancel(id) \
             (request and notify form, also twice, interleaved with the other's nexts); also the mirror image (the later stream finishes \
             first), three connections, many quick open/finish cycles, random scripts; one interpreter keeps a model (live / released how) \
             and judges every response: a next for a released id is an error response (never data), a cancel for a released id disturbs \
             nobody, two live streams never share an id, every live stream delivers exactly its producer's bytes and ends once; id reuse \
             itself is only counted. \
             Side-car families (own threads next to the pool). Producer-option sweep: every field of StreamOpts one at a time around a \
             seeded base point (zstd_level over the zstd library's whole range incl. negatives, 0, 1, 3, 19, max; chunk_bytes 1 and \
             several MiB; session_depth 0 and far beyond the grid), each with both compression settings, every producer kind, both \
             transports; the usual oracle with the harness's own zstd decoder. Fragmenting-source family: reader producers over sources \
             that return short reads (random short reads, 1-byte reads, 1000-byte records, Read::chain of a header and bodies, \
             socket-like bursts, ErrorKind::Interrupted) and writer producers with the same schedules as writes/flushes, healthy and \
             failing (after a short read, on a chunk boundary, before the first byte, after the last byte); the usual oracle. \
             Slow-consumer family: the raw client sends no next for 6.5 s (thorough 12 s / 35 s) in the middle of a stream of several \
             hundred 1..64-byte chunks, then pulls on; oracle: exactly the producer's bytes and one end marker, or an error response. \
             Many-open-sessions family: two slow healthy transfers on one server and one on a second server (another registration) pull \
             a chunk, pause, pull the next, while N in {1,10,100,300,1000} (thorough: 5000) other sessions are opened around them on \
             the slow transfer's own connection and on three others and are left open / pulled once and left / abandoned (their \
             connection closes without a cancel), plus N/4 that complete or are cancelled; then the slow transfers and a sample of the \
             left-open sessions are pulled to their end; the bystander interpreter judges every response: a next on a live stream nobody \
             released is never an error, every healthy stream delivers exactly its bytes and one end marker (the library documents no \
             session cap and no idle watchdog)",
        );
        let mut cfgs = grid(args, true, |i, _| if args.thorough() { vec![Tr::Tcp, Tr::Ws] } else if i % 3 == 0 { vec![Tr::Tcp, Tr::Ws] } else { vec![Tr::Tcp] });
        let mut rng = Rng::new(args.seed ^ 0x0C09_5AFE);
        rng.shuffle(&mut cfgs);
        let n = args.budget(cfgs.len() as u64, cfgs.len() as u64) as usize;
        cfgs.truncate(n.min(cfgs.len()).max(1));
        // the gated family goes first so that a reduced budget still runs it
        let mut fam = conc_cfgs(args);
        rng.shuffle(&mut fam);
        let nf = args.budget(fam.len() as u64, fam.len() as u64) as usize;
        fam.truncate(nf.min(fam.len()).max(1));
        let mut by = bystander::raw_cfgs(args);
        rng.shuffle(&mut by);
        let nb = args.budget(by.len() as u64, by.len() as u64) as usize;
        by.truncate(nb.min(by.len()).max(1));
        by.extend(fam);
        by.extend(cfgs);
        let cfgs = by;
        quiet_panics(true);
        // the side-car families work on their own threads while the pool works
        let side = [crowd::spawn(args, true), slowc::spawn(args, true), frag::spawn(args, true), popts::spawn(args, true)];
        run_pool(&mut rep, args, cfgs, raw_work);
        for f in side {
            sidecar::join(f, &mut rep);
        }
        quiet_panics(false);
        sidecar_summary(&mut rep, args, true);
        if args.scale >= 0.5 {
            crowd::summary(&mut rep, true);
        }
        if rep.get_count("streams_completed") == 0 && rep.inconclusive.is_empty() {
            rep.inconclusive("no stream was pulled");
        }
        rep
    }

    /// What the side-car families saw, and "observed nothing" when one of them saw nothing.
    fn sidecar_summary(rep: &mut Report, args: &Args, raw: bool) {
        rep.set("producer_option_values_swept", json!(popts::swept_values(args.thorough()).iter().map(|s| s.tag()).collect::<Vec<_>>()));
        rep.set("fragmenting_source_shapes", json!(frag::MODES.iter().map(|m| m.tag()).collect::<Vec<_>>()));
        rep.set("slow_consumer_stalls_ms", json!(slowc::stalls_ms(args)));
        if !rep.inconclusive.is_empty() {
            return;
        }
        if args.scale < 0.5 {
            // a slow engine (memcheck at a fiftieth of the budget) is there for memory errors in whatever the stage reaches;
            // which of the side-car families gets a whole stream through in that window is a matter of scheduling, so their
            // "observed nothing" floors are decided by the native run of the same stage
            rep.set("sidecar_floors_left_to_the_native_stage", json!(true));
            return;
        }
        if rep.get_count("producer_option_streams_exact") == 0 {
            rep.inconclusive("producer-option family: no stream was pulled");
        }
        if rep.get_count(if raw { "fragmenting_source_streams_exact" } else { "fragmenting_source_pulls_exact" }) == 0 || rep.get_count("fragmenting_source_short_reads_before_the_end") == 0 {
            rep.inconclusive("fragmenting-source family: no stream from a source with short reads was pulled");
        }
        if rep.get_count("slow_consumer_stalls_completed") == 0 {
            rep.inconclusive("slow-consumer family: no consumer sat through its stall");
        }
    }

    // ================================================================== stage pullers

    fn err_text(e: &RepeError) -> String {
        trunc(&e.to_string(), 160)
    }

    /// Judge one library pull: `got` is the puller's result rendered as logical bytes.
    fn judge_pull(acc: &mut Acc, cfg: &Cfg, client: &str, puller: &str, spec: &Spec, expected: &[u8], got: Result<Vec<u8>, String>) {
        acc.evals += 1;
        acc.distinct.push(hash_of(&("pull", cfg, client, puller, spec.fail.is_some(), spec.panic, spec.delay, (expected.len() / cfg.chunk.max(1)).min(7), expected.len() % cfg.chunk.max(1) <= 1)));
        let replay = || json!({"cfg": cfg.json(), "client": client, "puller": puller, "resource": spec.res(), "logical_len": expected.len()});
        let class = cfg.kind.class();
        match (spec.fail.is_some(), got) {
            (false, Ok(b)) => {
                if b == expected {
                    acc.count("pulls_matching", 1);
                } else {
                    let at = first_diff(&b, expected);
                    acc.violation(
                        format!("C09:puller-content-mismatch:{puller}:{class}"),
                        format!("{puller} over {client} returned {} logical bytes, producer emitted {}; first difference at {at}", b.len(), expected.len()),
                        replay(),
                    );
                }
            }
            (false, Err(e)) => acc.violation(
                format!("C09:puller-error-on-healthy-stream:{puller}:{class}"),
                format!("{puller} over {client} failed on a healthy {}-byte stream: {e}", expected.len()),
                replay(),
            ),
            (true, Ok(b)) => acc.violation(
                format!("C09:puller-ok-on-producer-failure:{puller}:{class}"),
                format!("{puller} over {client} returned Ok ({} bytes) although the producer failed at {:?}", b.len(), spec.fail),
                replay(),
            ),
            (true, Err(_)) => acc.count("pulls_failing_as_required", 1),
        }
    }

    /// A consumer that reads in seeded small pieces with sleeps (varies relative speed).
    /// A seeded consumer of the reader handed out by pull_consume*: the read PATTERN varies with the seed — random-sized reads
    /// only; a prefix read with read()/read_exact-style loops that stops inside or at a chunk boundary followed by read_to_end
    /// (header-then-rest consumers); vectored reads; io::copy. Whatever the pattern, the bytes are the stream's bytes, once.
    fn slow_drain(reader: &mut dyn Read, seed: u64, chunk: usize) -> Result<Vec<u8>, RepeError> {
        let mut r = Rng::new(seed ^ 0x510);
        let mut out = Vec::new();
        let mut buf = vec![0u8; (chunk * 2 + 3).min(200_000)];
        let pattern = r.below(6);
        match pattern {
            1 | 2 => {
                // prefix of k bytes (k around multiples of the chunk size and small values), then the rest in one call
                let k = match r.below(5) {
                    0 => 1,
                    1 => chunk.saturating_sub(1).max(1),
                    2 => chunk,
                    3 => chunk + 1,
                    _ => 1 + r.usize_below(3 * chunk + 5),
                };
                let mut head = vec![0u8; k];
                let mut got = 0;
                while got < k {
                    let step = if pattern == 1 { k - got } else { 1 + r.usize_below(k - got) };
                    let n = reader.read(&mut head[got..got + step])?;
                    if n == 0 {
                        break;
                    }
                    got += n;
                }
                out.extend_from_slice(&head[..got]);
                reader.read_to_end(&mut out)?;
                return Ok(out);
            }
            3 => {
                // vectored reads into two buffers of uneven size, then read_to_end after a few of them
                let rounds = r.usize_below(4);
                for _ in 0..rounds {
                    let (mut a, mut b) = (vec![0u8; 1 + r.usize_below(chunk + 2)], vec![0u8; 1 + r.usize_below(7)]);
                    let n = {
                        let mut bufs = [std::io::IoSliceMut::new(&mut a), std::io::IoSliceMut::new(&mut b)];
                        reader.read_vectored(&mut bufs)?
                    };
                    if n == 0 {
                        return Ok(out);
                    }
                    let na = n.min(a.len());
                    out.extend_from_slice(&a[..na]);
                    out.extend_from_slice(&b[..n - na]);
                }
                reader.read_to_end(&mut out)?;
                return Ok(out);
            }
            4 => {
                // one small read, then io::copy
                let n = reader.read(&mut buf[..1])?;
                out.extend_from_slice(&buf[..n]);
                if n != 0 {
                    std::io::copy(reader, &mut out)?;
                }
                return Ok(out);
            }
            _ => {}
        }
        loop {
            let want = 1 + r.usize_below(buf.len());
            let n = reader.read(&mut buf[..want])?;
            if n == 0 {
                return Ok(out);
            }
            out.extend_from_slice(&buf[..n]);
            if r.chance(1, 12) {
                std::thread::sleep(Duration::from_micros(r.below(300)));
            }
        }
    }

    fn sync_typed<T: repe::BeveTypedSlice>(c: &Client, res: &str) -> Result<Vec<u8>, String> {
        pull_typed_slice::<T>(c, res).map(|v| beve::to_vec_typed_slice(&v)).map_err(|e| err_text(&e))
    }
    fn sync_complex<T: repe::BeveTypedSlice>(c: &Client, res: &str) -> Result<Vec<u8>, String> {
        pull_complex_slice::<T>(c, res).map(|v| beve::to_vec_complex_slice(&v)).map_err(|e| err_text(&e))
    }

    fn sync_pulls(cfg: &Cfg, client: &Client, spec: &Spec, acc: &mut Acc) {
        let expected = logical_bytes(cfg.kind, spec);
        let res = spec.res();
        judge_pull(acc, cfg, "Client", "pull_to_vec", spec, &expected, pull_to_vec(client, &res).map_err(|e| err_text(&e)));
        let (seed, chunk) = (spec.seed, cfg.chunk);
        judge_pull(acc, cfg, "Client", "pull_consume", spec, &expected, pull_consume(client, &res, |r| slow_drain(r, seed, chunk)).map_err(|e| err_text(&e)));
        match cfg.kind {
            Kind::Value => {
                let got = if spec.fail.is_some() || spec.vt == 0 {
                    pull_value::<String>(client, &res).map(|v| beve::to_vec(&v).unwrap()).map_err(|e| err_text(&e))
                } else {
                    pull_value::<Doc>(client, &res).map(|v| beve::to_vec(&v).unwrap()).map_err(|e| err_text(&e))
                };
                judge_pull(acc, cfg, "Client", "pull_value", spec, &expected, got);
            }
            Kind::Typed(e) => {
                let got = match e {
                    Elem::U8 => sync_typed::<u8>(client, &res),
                    Elem::U16 => sync_typed::<u16>(client, &res),
                    Elem::I64 => sync_typed::<i64>(client, &res),
                    Elem::F32 => sync_typed::<f32>(client, &res),
                    Elem::F64 => sync_typed::<f64>(client, &res),
                };
                judge_pull(acc, cfg, "Client", "pull_typed_slice", spec, &expected, got);
            }
            Kind::Complex(e) => {
                let got = if e == Elem::F64 { sync_complex::<f64>(client, &res) } else { sync_complex::<f32>(client, &res) };
                judge_pull(acc, cfg, "Client", "pull_complex_slice", spec, &expected, got);
            }
            _ => {}
        }
    }

    async fn async_typed<T: repe::BeveTypedSlice + Send + 'static, C: repe::value_stream::AsyncSvsClient>(c: &C, res: &str) -> Result<Vec<u8>, String> {
        pull_typed_slice_async::<T, C>(c, res).await.map(|v| beve::to_vec_typed_slice(&v)).map_err(|e| err_text(&e))
    }
    async fn async_complex<T: repe::BeveTypedSlice + Send + 'static, C: repe::value_stream::AsyncSvsClient>(c: &C, res: &str) -> Result<Vec<u8>, String> {
        pull_complex_slice_async::<T, C>(c, res).await.map(|v| beve::to_vec_complex_slice(&v)).map_err(|e| err_text(&e))
    }

    async fn async_pulls<C: repe::value_stream::AsyncSvsClient>(cfg: &Cfg, cname: &str, client: &C, spec: &Spec, acc: &mut Acc) {
        let expected = logical_bytes(cfg.kind, spec);
        let res = spec.res();
        judge_pull(acc, cfg, cname, "pull_to_vec_async", spec, &expected, pull_to_vec_async(client, &res).await.map_err(|e| err_text(&e)));
        let (seed, chunk) = (spec.seed, cfg.chunk);
        let got = pull_consume_async(client, &res, move |mut r| slow_drain(&mut *r, seed, chunk)).await.map_err(|e| err_text(&e));
        judge_pull(acc, cfg, cname, "pull_consume_async", spec, &expected, got);
        match cfg.kind {
            Kind::Value => {
                let got = if spec.fail.is_some() || spec.vt == 0 {
                    pull_value_async::<String, C>(client, &res).await.map(|v| beve::to_vec(&v).unwrap()).map_err(|e| err_text(&e))
                } else {
                    pull_value_async::<Doc, C>(client, &res).await.map(|v| beve::to_vec(&v).unwrap()).map_err(|e| err_text(&e))
                };
                judge_pull(acc, cfg, cname, "pull_value_async", spec, &expected, got);
            }
            Kind::Typed(e) => {
                let got = match e {
                    Elem::U8 => async_typed::<u8, C>(client, &res).await,
                    Elem::U16 => async_typed::<u16, C>(client, &res).await,
                    Elem::I64 => async_typed::<i64, C>(client, &res).await,
                    Elem::F32 => async_typed::<f32, C>(client, &res).await,
                    Elem::F64 => async_typed::<f64, C>(client, &res).await,
                };
                judge_pull(acc, cfg, cname, "pull_typed_slice_async", spec, &expected, got);
            }
            Kind::Complex(e) => {
                let got = if e == Elem::F64 { async_complex::<f64, C>(client, &res).await } else { async_complex::<f32, C>(client, &res).await };
                judge_pull(acc, cfg, cname, "pull_complex_slice_async", spec, &expected, got);
            }
            _ => {}
        }
    }

    /// The specs pulled for one configuration: boundary lengths plus failing producers.
    fn puller_specs(cfg: &Cfg, seed: u64, thorough: bool) -> Vec<Spec> {
        let mut rng = Rng::new(seed ^ 0x9011);
        let targets = targets(cfg.chunk, thorough);
        let mut specs = vec![];
        for &t in &targets {
            let mut s = Spec { p: 0, seed: rng.below(1 << 40), compressible: false, fail: None, panic: false, delay: rng.chance(1, 3), vt: rng.below(2) as u8 };
            s.p = param_for(cfg.kind, cfg.zstd, t, &s);
            specs.push(s);
        }
        if matches!(cfg.kind, Kind::Reader | Kind::Writer | Kind::Value) {
            let big = *targets.last().unwrap();
            for k in [0usize, cfg.chunk.min(big), big.saturating_sub(1)] {
                let mut s = Spec { p: big, seed: rng.below(1 << 40), compressible: rng.coin(), fail: Some(k), panic: cfg.kind == Kind::Writer && rng.chance(1, 3), delay: rng.coin(), vt: 0 };
                if cfg.kind == Kind::Value {
                    s.p = k;
                }
                specs.push(s);
            }
        }
        specs
    }

    // ------------------------------------------------------------------ stage pullers, gated family: a foreign cancel in the middle of a pull

    thread_local! {
        /// `svs.chunk_fetched` probe hits on this thread (the sync pullers fetch on the calling thread, the
        /// async pull loop runs inside `block_on` on the calling thread).
        static FETCHED: Cell<u64> = const { Cell::new(0) };
    }

    #[derive(Clone, Copy, Debug, PartialEq, Eq, Hash, PartialOrd, Ord)]
    enum Pk {
        ToVec,
        Consume,
        ToFile,
        Decode,
    }
    impl Pk {
        fn name(&self, kind: Kind, is_async: bool) -> &'static str {
            match (self, is_async) {
                (Pk::ToVec, false) => "pull_to_vec",
                (Pk::ToVec, true) => "pull_to_vec_async",
                (Pk::Consume, false) => "pull_consume",
                (Pk::Consume, true) => "pull_consume_async",
                (Pk::ToFile, false) => "pull_to_file",
                (Pk::ToFile, true) => "pull_to_file_async",
                (Pk::Decode, false) => match kind {
                    Kind::Value => "pull_value",
                    Kind::Complex(_) => "pull_complex_slice",
                    _ => "pull_typed_slice",
                },
                (Pk::Decode, true) => match kind {
                    Kind::Value => "pull_value_async",
                    Kind::Complex(_) => "pull_complex_slice_async",
                    _ => "pull_typed_slice_async",
                },
            }
        }
    }

    /// Run one blocking puller; Ok carries the number of logical bytes it returned / wrote.
    fn cancel_pull_sync(pk: Pk, kind: Kind, client: &Client, res: &str, dest: &std::path::Path, seed: u64, chunk: usize) -> Result<usize, String> {
        let e = |e: RepeError| err_text(&e);
        match pk {
            Pk::ToVec => pull_to_vec(client, res).map(|v| v.len()).map_err(e),
            Pk::Consume => pull_consume(client, res, |r| slow_drain(r, seed, chunk)).map(|v| v.len()).map_err(e),
            Pk::ToFile => pull_to_file(client, res, dest).map(|_| std::fs::metadata(dest).map(|m| m.len() as usize).unwrap_or(0)).map_err(e),
            Pk::Decode => match kind {
                Kind::Value => pull_value::<String>(client, res).map(|v| v.len()).map_err(e),
                Kind::Typed(Elem::U8) => pull_typed_slice::<u8>(client, res).map(|v| v.len()).map_err(e),
                Kind::Typed(Elem::U16) => pull_typed_slice::<u16>(client, res).map(|v| v.len() * 2).map_err(e),
                Kind::Typed(Elem::I64) => pull_typed_slice::<i64>(client, res).map(|v| v.len() * 8).map_err(e),
                Kind::Typed(Elem::F32) => pull_typed_slice::<f32>(client, res).map(|v| v.len() * 4).map_err(e),
                Kind::Typed(Elem::F64) => pull_typed_slice::<f64>(client, res).map(|v| v.len() * 8).map_err(e),
                _ => Err("harness: no decoding puller for this kind".into()),
            },
        }
    }

    async fn cancel_pull_async<C: repe::value_stream::AsyncSvsClient>(pk: Pk, kind: Kind, client: &C, res: &str, dest: &std::path::Path, seed: u64, chunk: usize) -> Result<usize, String> {
        let e = |e: RepeError| err_text(&e);
        match pk {
            Pk::ToVec => pull_to_vec_async(client, res).await.map(|v| v.len()).map_err(e),
            Pk::Consume => pull_consume_async(client, res, move |mut r| slow_drain(&mut *r, seed, chunk)).await.map(|v| v.len()).map_err(e),
            Pk::ToFile => pull_to_file_async(client, res, dest).await.map(|n| n as usize).map_err(e),
            Pk::Decode => match kind {
                Kind::Value => pull_value_async::<String, C>(client, res).await.map(|v| v.len()).map_err(e),
                Kind::Typed(Elem::U8) => pull_typed_slice_async::<u8, C>(client, res).await.map(|v| v.len()).map_err(e),
                Kind::Typed(Elem::U16) => pull_typed_slice_async::<u16, C>(client, res).await.map(|v| v.len() * 2).map_err(e),
                Kind::Typed(Elem::I64) => pull_typed_slice_async::<i64, C>(client, res).await.map(|v| v.len() * 8).map_err(e),
                Kind::Typed(Elem::F32) => pull_typed_slice_async::<f32, C>(client, res).await.map(|v| v.len() * 4).map_err(e),
                Kind::Typed(Elem::F64) => pull_typed_slice_async::<f64, C>(client, res).await.map(|v| v.len() * 8).map_err(e),
                _ => Err("harness: no decoding puller for this kind".into()),
            },
        }
    }

    /// Payload and gate position for one foreign-cancel scenario. The producer parks after `sent`
    /// chunks entered the session channel (`sent >= depth + 2`, so at least one chunk response was
    /// computed for the puller) and more than one further chunk follows the gate, so whatever `next` is
    /// in flight when the gate opens is answered with a chunk that is NOT the last one.
    fn cancel_payload(cfg: &Cfg, rng: &mut Rng) -> (Vec<u8>, usize, usize) {
        let c = cfg.chunk;
        let (want_len, sent) = if cfg.zstd {
            (140_000 + 270_000 + rng.usize_below(5000), 0)
        } else {
            let sent = cfg.depth + 2 + rng.usize_below(3);
            ((sent + 1) * c + 1 + rng.usize_below(2 * c + 1) + 24, sent)
        };
        let spec = Spec { p: 0, seed: rng.below(1 << 40), compressible: false, fail: None, panic: false, delay: false, vt: 0 };
        let data = match cfg.kind {
            Kind::Reader | Kind::Writer => svs::payload(spec.seed, want_len, false),
            Kind::Typed(e) => logical_bytes(cfg.kind, &Spec { p: want_len / elem_size(e) + 1, ..spec }),
            Kind::Complex(e) => logical_bytes(cfg.kind, &Spec { p: want_len / (if e == Elem::F64 { 16 } else { 8 }) + 1, ..spec }),
            k => logical_bytes(k, &Spec { p: want_len, ..spec }),
        };
        let park_at = if cfg.zstd { 140_000 + rng.usize_below(2000) } else { sent * c + rng.usize_below(c) };
        (data, park_at, sent)
    }

    struct CancelCtx<'a> {
        cfg: &'a Cfg,
        table: &'a GateTable,
        /// what the sniffing proxy between the puller and the server saw
        sniff: &'a Sniff,
        dir: &'a std::path::Path,
    }

    /// One scenario: `run` executes a library puller on this thread against a gated producer while a
    /// helper thread, once the producer is parked, takes the stream id from the `/_svs/open` response
    /// the sniffing proxy saw on the puller's own connection (stream ids are opaque: nothing is
    /// assumed about how the server allocates them), cancels it from a second connection with a
    /// request-form cancel (acknowledged), and only then opens the gate.
    fn cancel_scenario<T: RawTransport + Send>(
        cx: &CancelCtx<'_>,
        raw: &mut RawSvs<T>,
        pk: Pk,
        cname: &str,
        is_async: bool,
        rng: &mut Rng,
        twins: &mut BTreeMap<(Pk, u64), Vec<(String, bool)>>,
        twin_key: u64,
        payload: &(Vec<u8>, usize, usize),
        acc: &mut Acc,
        run: impl FnOnce(&str, &std::path::Path) -> Result<usize, String>,
    ) -> Result<(), String> {
        let cfg = cx.cfg;
        let class = cfg.kind.class();
        let puller = pk.name(cfg.kind, is_async);
        let (data, park_at, sent) = (payload.0.clone(), payload.1, payload.2);
        let full_len = data.len();
        let (res, gid, src) = cx.table.add(data, Some(park_at), false, false);
        let dest = cx.dir.join(format!("dest-{gid}.bin"));
        let preexisting = pk == Pk::ToFile && rng.coin();
        if preexisting {
            std::fs::write(&dest, b"previous content of the destination").map_err(|e| format!("scratch write: {e}"))?;
        }
        let before = svs::snapshot(cx.dir);
        let replay = |extra: Value| json!({"cfg": cfg.json(), "client": cname, "puller": puller, "logical_len": full_len, "park_at": park_at, "chunks_sent_before_gate": sent, "destination_preexisting": preexisting, "observed": extra});
        let opens0 = cx.sniff.opens_seen();
        let fetched0 = FETCHED.with(|c| c.get());
        let sniff = cx.sniff;
        let (result, helper) = std::thread::scope(|s| {
            let src2 = src.clone();
            let h = s.spawn(move || -> Result<(bool, Vec<u64>, Vec<u64>), String> {
                let parked = src2.gate.wait_parked(Duration::from_secs(15));
                let r = (|| -> Result<(Vec<u64>, Vec<u64>), String> {
                    // the producer is parked, so the puller's open was answered: its response went through the proxy
                    let seen = sniff.opens_since(opens0);
                    let mut cancelled = vec![];
                    if parked && seen.len() == 1 {
                        let ec = raw.cancel(seen[0], false)?;
                        if ec != 0 {
                            return Err(format!("request-form cancel of stream {} answered ec={ec}", seen[0]));
                        }
                        cancelled.push(seen[0]);
                    }
                    Ok((seen, cancelled))
                })();
                // the cancel was acknowledged (or the helper failed): release the producer either way
                src2.gate.open();
                r.map(|(seen, c)| (parked, seen, c))
            });
            let result = run(&res, &dest);
            src.gate.abandon();
            (result, h.join())
        });
        cx.table.remove(gid);
        let fetched = FETCHED.with(|c| c.get()) - fetched0;
        let after = svs::snapshot(cx.dir);
        if preexisting || after.contains_key(&format!("dest-{gid}.bin")) {
            let _ = std::fs::remove_file(&dest);
        }
        let (parked, seen, cancelled) = match helper {
            Ok(Ok(x)) => x,
            Ok(Err(e)) => return Err(format!("cancelling helper: {e}")),
            Err(_) => return Err("cancelling helper panicked".into()),
        };
        if !parked || src.gate.timed_out() {
            match &result {
                // nothing was cancelled, the producer is healthy and had not even reached its gate: the pull failed on its own
                Err(e) if !parked && cancelled.is_empty() && !e.starts_with("harness:") => {
                    acc.evals += 1;
                    acc.violation(
                        format!("C09:puller-error-on-healthy-stream:{puller}:{class}"),
                        format!("{puller} over {cname} failed on a healthy {full_len}-byte stream after {fetched} chunks, before the producer reached byte {park_at} and before the harness cancelled anything: {e}"),
                        replay(json!({"result": format!("Err({})", trunc(e, 100)), "chunks_fetched": fetched})),
                    );
                }
                _ => acc.inconclusive.push(format!("{puller} over {cname}: the gated producer never reached its gate (result {:?})", result.as_ref().map_err(|e| trunc(e, 80)))),
            }
            return Ok(());
        }
        if cancelled.is_empty() {
            acc.inconclusive.push(format!("the proxy on the puller's connection saw {} open responses ({seen:?}) while the producer was parked instead of exactly one: cannot address the puller's stream", seen.len()));
            return Ok(());
        }
        acc.count("foreign_cancel_stream_id_observed_in_open_response", 1);
        acc.evals += 1;
        acc.count("foreign_cancel_scenarios", 1);
        acc.count("chunks_fetched_by_pullers_before_the_error", fetched);
        if fetched >= 1 {
            acc.count("pulls_cancelled_mid_stream", 1);
        } else {
            acc.count("pulls_cancelled_before_first_chunk", 1);
        }
        acc.distinct.push(hash_of(&("foreign-cancel", cfg, cname, pk, fetched.min(12), result.is_ok(), preexisting)));
        twins.entry((pk, twin_key)).or_default().push((format!("{puller} over {cname}"), result.is_err()));
        match &result {
            Ok(len) => acc.violation(
                format!("C09:puller-ok-after-foreign-cancel:{puller}:{class}"),
                format!(
                    "{puller} over {cname} returned Ok with {len} logical bytes (the producer's stream has {full_len}) although stream {:?} was released by another connection after {fetched} chunks and before the producer emitted its last {} bytes",
                    cancelled,
                    full_len - park_at
                ),
                replay(json!({"result": format!("Ok({len})"), "chunks_fetched": fetched})),
            ),
            Err(e) => {
                acc.count("pulls_failing_after_foreign_cancel", 1);
                if acc.samples.len() < 2 && fetched > 1 {
                    acc.samples.push(replay(json!({"result": format!("Err({})", trunc(e, 100)), "chunks_fetched": fetched, "cancelled_stream_ids": cancelled})));
                }
            }
        }
        if after != before {
            acc.violation(
                format!("C09:directory-changed-after-foreign-cancel:{puller}:{class}"),
                format!("{puller} over {cname} (result {:?}): directory before {} after {}", result.as_ref().map_err(|e| trunc(e, 80)), svs::describe_snapshot(&before), svs::describe_snapshot(&after)),
                replay(json!({"chunks_fetched": fetched})),
            );
        } else if pk == Pk::ToFile {
            acc.count("file_destinations_untouched_after_foreign_cancel", 1);
        }
        Ok(())
    }

    fn judge_twins(cfg: &Cfg, twins: &BTreeMap<(Pk, u64), Vec<(String, bool)>>, acc: &mut Acc) {
        for ((pk, _), v) in twins {
            if v.len() < 2 {
                continue;
            }
            if v.iter().all(|x| x.1 == v[0].1) {
                acc.count("sync_async_twins_agreeing_after_foreign_cancel", 1);
            } else {
                acc.violation(
                    format!("C09:sync-async-disagree-after-foreign-cancel:{}:{}", pk.name(cfg.kind, false), cfg.kind.class()),
                    format!("same stream, same foreign cancel: {}", v.iter().map(|(n, e)| format!("{n} -> {}", if *e { "Err" } else { "Ok" })).collect::<Vec<_>>().join("; ")),
                    json!({"cfg": cfg.json()}),
                );
            }
        }
    }

    fn cancel_config<T: RawTransport + Send>(cfg: &Cfg, raw: &mut RawSvs<T>, table: &GateTable, addr: SocketAddr, seed: u64, rt: &Arc<tokio::runtime::Runtime>, acc: &mut Acc) -> Result<(), String> {
        let mut rng = Rng::new(seed ^ 0xCA9C_E1);
        let dir = svs::fresh_dir("c09-cancel");
        // the pullers reach the server through a sniffing proxy (the raw second connection goes direct)
        let sniff = Sniff::new();
        let (tcp_px, ws_px) = match cfg.tr {
            Tr::Tcp => (Some(proxy::tcp_proxy(addr, sniff.clone())?), None),
            Tr::Ws => (None, Some(proxy::ws_proxy(rt, format!("ws://{addr}/repe"), sniff.clone())?)),
        };
        let addr = tcp_px.as_ref().map(|p| p.addr).or(ws_px.as_ref().map(|p| p.addr)).unwrap();
        let cx = CancelCtx { cfg, table, sniff: &sniff, dir: &dir };
        let mut pks = vec![Pk::ToVec, Pk::Consume, Pk::ToFile];
        if cfg.kind.beve() {
            pks.push(Pk::Decode);
        }
        let mut twins = BTreeMap::new();
        let (kind, chunk) = (cfg.kind, cfg.chunk);
        let r = (|| -> Result<(), String> {
            match cfg.tr {
                Tr::Tcp => {
                    let client = Client::connect(addr).map_err(|e| format!("Client::connect: {e}"))?;
                    let aclient = rt.block_on(AsyncClient::connect(addr)).map_err(|e| format!("AsyncClient::connect: {e}"))?;
                    for (i, &pk) in pks.iter().enumerate() {
                        let payload = cancel_payload(cfg, &mut rng);
                        let s = rng.next_u64();
                        cancel_scenario(&cx, raw, pk, "Client", false, &mut rng, &mut twins, i as u64, &payload, acc, |res, dest| cancel_pull_sync(pk, kind, &client, res, dest, s, chunk))?;
                        cancel_scenario(&cx, raw, pk, "AsyncClient", true, &mut rng, &mut twins, i as u64, &payload, acc, |res, dest| rt.block_on(cancel_pull_async(pk, kind, &aclient, res, dest, s, chunk)))?;
                    }
                    acc.count("configs_sync_client", 1);
                    acc.count("configs_async_client", 1);
                }
                Tr::Ws => {
                    let url = format!("ws://{addr}/repe");
                    let wclient = rt.block_on(WebSocketClient::connect(&url)).map_err(|e| format!("WebSocketClient::connect: {e}"))?;
                    for (i, &pk) in pks.iter().enumerate() {
                        let payload = cancel_payload(cfg, &mut rng);
                        let s = rng.next_u64();
                        cancel_scenario(&cx, raw, pk, "WebSocketClient", true, &mut rng, &mut twins, i as u64, &payload, acc, |res, dest| rt.block_on(cancel_pull_async(pk, kind, &wclient, res, dest, s, chunk)))?;
                    }
                    acc.count("configs_websocket_client", 1);
                }
            }
            Ok(())
        })();
        judge_twins(cfg, &twins, acc);
        let _ = std::fs::remove_dir_all(&dir);
        acc.count("frames_forwarded_by_sniffing_proxies", sniff.frames_forwarded.load(Ordering::Relaxed));
        if sniff.unparsed.load(Ordering::Relaxed) > 0 {
            acc.count("proxy_frames_not_parsed", sniff.unparsed.load(Ordering::Relaxed));
        }
        r
    }

    fn cancel_work(cfg: &Cfg, seed: u64, rt: &Arc<tokio::runtime::Runtime>, acc: &mut Acc) {
        let table = Arc::new(GateTable::default());
        let srv = match start_server_with(build_gated_router(cfg.kind, cfg.opts(), table.clone()), cfg.tr, rt) {
            Ok(s) => s,
            Err(e) => {
                acc.inconclusive.push(format!("server start: {e}"));
                return;
            }
        };
        let r = match cfg.tr {
            Tr::Tcp => TcpRaw::connect(srv.addr).and_then(|t| cancel_config(cfg, &mut RawSvs::new(t), &table, srv.addr, seed, rt, acc)),
            Tr::Ws => WsRaw::connect(rt.clone(), &format!("ws://{}/repe", srv.addr)).and_then(|t| cancel_config(cfg, &mut RawSvs::new(t), &table, srv.addr, seed, rt, acc)),
        };
        if let Err(e) = r {
            acc.inconclusive.push(format!("foreign-cancel family trouble on {cfg:?}: {e}"));
        }
        acc.count("foreign_cancel_configs", 1);
    }

    /// The configurations of the gated family of stage pullers.
    fn cancel_cfgs(args: &Args) -> Vec<Cfg> {
        let mut rng = Rng::new(args.seed ^ 0xC09_CA9C);
        let mut v = vec![];
        for tr in [Tr::Tcp, Tr::Ws] {
            for (ki, kind) in [Kind::Reader, Kind::Writer, Kind::Value, Kind::Typed(Elem::U8)].into_iter().enumerate() {
                for chunk in [1usize, 3, 64, 4096, 65536] {
                    for zstd in [false, true] {
                        if zstd && !(chunk == 64 || chunk == 4096) {
                            continue;
                        }
                        let kind = if let Kind::Typed(_) = kind { Kind::Typed(ELEMS[(ki + chunk + args.seed as usize + rng.usize_below(5)) % 5]) } else { kind };
                        let dmax = if chunk >= 65536 { 2 } else { 8 };
                        let depths: Vec<usize> = if args.thorough() { (0..=dmax).collect() } else { vec![rng.usize_below(dmax + 1)] };
                        for depth in depths {
                            v.push(Cfg { tr, kind, chunk, depth, zstd, fam: 1 });
                        }
                    }
                }
            }
        }
        v
    }

    /// which client drives the pull is folded into the transport: Tcp => Client and AsyncClient alternate
    fn pullers_work(cfg: &Cfg, seed: u64, thorough: bool, rt: &Arc<tokio::runtime::Runtime>, acc: &mut Acc) {
        if cfg.fam == 1 {
            return cancel_work(cfg, seed, rt, acc);
        }
        if cfg.fam == 2 {
            return bystander::puller_work(cfg, seed, rt, acc);
        }
        let srv = match start_server(cfg, rt) {
            Ok(s) => s,
            Err(e) => {
                acc.inconclusive.push(format!("server start: {e}"));
                return;
            }
        };
        let specs = puller_specs(cfg, seed, thorough);
        let use_async = seed & 1 == 1 || thorough;
        let use_sync = seed & 1 == 0 || thorough;
        match cfg.tr {
            Tr::Tcp => {
                if use_sync {
                    match Client::connect(srv.addr) {
                        Ok(client) => {
                            for s in &specs {
                                sync_pulls(cfg, &client, s, acc);
                            }
                            acc.count("configs_sync_client", 1);
                        }
                        Err(e) => acc.inconclusive.push(format!("Client::connect: {e}")),
                    }
                }
                if use_async {
                    let addr = srv.addr;
                    rt.block_on(async {
                        match AsyncClient::connect(addr).await {
                            Ok(client) => {
                                for s in &specs {
                                    async_pulls(cfg, "AsyncClient", &client, s, acc).await;
                                }
                                acc.count("configs_async_client", 1);
                            }
                            Err(e) => acc.inconclusive.push(format!("AsyncClient::connect: {e}")),
                        }
                    });
                }
            }
            Tr::Ws => {
                let url = format!("ws://{}/repe", srv.addr);
                rt.block_on(async {
                    match WebSocketClient::connect(&url).await {
                        Ok(client) => {
                            for s in &specs {
                                async_pulls(cfg, "WebSocketClient", &client, s, acc).await;
                            }
                            acc.count("configs_websocket_client", 1);
                        }
                        Err(e) => acc.inconclusive.push(format!("WebSocketClient::connect: {e}")),
                    }
                });
            }
        }
    }

    fn run_pullers(args: &Args) -> Report {
        let mut rep = Report::new(
            args,
            "c09-library-pullers",
            "the same grid pulled with pull_to_vec, pull_consume (seeded slow reader), pull_value, pull_typed_slice, pull_complex_slice over \
             the sync Client, and their async forms over AsyncClient (sync Server) and WebSocketClient (WebSocketServer); oracle: the \
             returned bytes/values re-encoded equal the independently computed logical bytes; a failing producer (reader error at byte k, \
             writer error/panic, serializer error) must give Err from every puller; distinct = (config, client, puller, flags, length class). \
             Gated family (foreign cancel): each puller (pull_to_vec, pull_consume, pull_to_file, pull_value / pull_typed_slice and their \
             async forms over AsyncClient and WebSocketClient) pulls from a producer parked on a harness gate after >= depth+2 chunks; a \
             sniffing proxy on the puller's own connection reads the stream id from the /_svs/open response (ids are opaque), a second \
             raw connection sends a request-form /_svs/cancel for it, and only after the ack the gate is opened (more than one chunk \
             still follows); oracle: every puller returns Err, the destination directory is unchanged, sync and async twins agree. \
             Bystander family (one producer, raw connections plus a library puller behind a sniffing proxy): (a) the puller is stopped \
             in its svs.chunk_fetched probe after its LAST chunk, a raw connection opens a new stream and pulls a part, the puller \
             returns (its trailing cancel is stale traffic), the raw stream must still deliver exactly its bytes; (b) the puller is \
             stopped between two fetches while raw connections send next/cancel for ids of streams they finished / cancelled / whose \
             producer failed: every stale next is an error response and the puller returns exactly its producer's bytes. \
             Slow-producer family (own threads, overlapping the pool): a gated producer goes quiet mid-stream for 12 s (thorough: also \
             35 s and 65 s; plus a short stall first on the same connection) and then finishes; pulled with pull_to_vec, pull_consume, \
             pull_to_file, pull_value, pull_typed_slice, pull_complex_slice and their async forms over Client, AsyncClient and \
             WebSocketClient; oracle: Ok carries exactly the producer's bytes (a failure is tolerated and counted, Ok with other bytes or \
             a published file with other bytes never). \
             Side-car families (own threads next to the pool). Producer-option sweep: every field of StreamOpts one at a time around a \
             seeded base point (zstd_level over the zstd library's whole range incl. negatives, 0, 1, 3, 19, max; chunk_bytes 1 and \
             several MiB; session_depth 0 and far beyond the grid), each with both compression settings, every producer kind, and every \
             puller (pull_to_vec, pull_consume, pull_to_file, pull_to_beve_file, pull_to_beve_zst_file, pull_to_file_trailer_verified, \
             pull_to_file_verified_async, pull_value / pull_typed_slice / pull_complex_slice and the async forms) over Client, AsyncClient \
             and WebSocketClient; oracle: exactly the logical bytes; the committed .zst file decompresses (harness decoder) to the logical \
             bytes; the digest was fed what was committed. Fragmenting-source family: reader producers over sources that return short \
             reads (random, 1-byte, 1000-byte records, Read::chain, socket-like bursts, Interrupted) and writer producers with the same \
             schedules, healthy and failing after a short read / on a chunk boundary / at byte 0 / after the last byte, pulled with \
             pull_to_vec, pull_consume, pull_to_file and async forms; oracle: exact bytes, a source failure is an Err. Slow-consumer \
             family: the pull_consume / pull_consume_async closure, or the digest Write fed by pull_to_file_verified_async / \
             pull_to_file_trailer_verified(_async), stops reading ONCE for 6.5 s (thorough: 12 s and 35 s) after 5-50% of a stream of \
             several hundred 1..64-byte chunks (zstd: thousands), then reads on, over Client, AsyncClient and WebSocketClient; oracle: Ok \
             carries / the committed file holds exactly the producer's bytes, verify is only called on a digest fed exactly the content, a \
             clean Err is tolerated and counted. \
             Same-thread family: one fresh OS thread per history performs 36 (thorough 80) pulls over eight producers (every kind, both \
             compression settings, chunk 256..1 MiB) through pull_consume, pull_to_vec, pull_value / pull_typed_slice / \
             pull_complex_slice, pull_to_file, pull_to_beve_file, pull_to_beve_zst_file, pull_to_file_trailer_verified, pull_stream \
             (Value, RawFile) and the async forms over AsyncClient / WebSocketClient; earlier pulls end in every way a consumer can end \
             (to the end; Ok after a prefix: 0 bytes, 1 byte, inside a chunk, on a chunk boundary, one byte before the end, exactly the \
             length without asking for the end; a self-delimiting value decoder; the consumer's own error; a refusing digest / verify; a \
             failing producer; a cancel from another connection mid-pull; the reader dropped early) and are each followed on the same \
             thread by ordinary complete pulls, compressed and uncompressed, compressible and not, small and multi-chunk (beyond one zstd \
             block); oracle per pull: exactly the producer's bytes / exactly the prefix the consumer asked for / Err for a failing \
             producer, whatever the thread did before. \
             Many-open-sessions family: the closure of pull_consume / pull_consume_async (Client, AsyncClient, WebSocketClient) reads \
             5-30% of a stream of hundreds of chunks and stops while raw connections open N in {1,10,100,300,1000} (thorough 5000) other \
             sessions on the same server (a third of them on a connection that then closes) and a few on a second server, then reads on; \
             oracle: Ok with exactly the producer's bytes",
        );
        let mut cfgs = grid(args, false, |i, _| if args.thorough() { vec![Tr::Tcp, Tr::Ws] } else if i % 3 == 0 { vec![Tr::Ws] } else { vec![Tr::Tcp] });
        let mut rng = Rng::new(args.seed ^ 0x0C09_9011);
        rng.shuffle(&mut cfgs);
        let n = args.budget(cfgs.len() as u64, cfgs.len() as u64) as usize;
        cfgs.truncate(n.min(cfgs.len()).max(1));
        // the gated family goes first so that a reduced budget still runs it
        let mut fam = cancel_cfgs(args);
        rng.shuffle(&mut fam);
        let nf = args.budget(fam.len() as u64, fam.len() as u64) as usize;
        fam.truncate(nf.min(fam.len()).max(1));
        let mut by = bystander::puller_cfgs(args);
        rng.shuffle(&mut by);
        let nb = args.budget(by.len() as u64, by.len() as u64) as usize;
        by.truncate(nb.min(by.len()).max(1));
        by.extend(fam);
        by.extend(cfgs);
        let cfgs = by;
        repe::verif_hooks::set_probe(Some(Arc::new(|point: &'static str, _id: u64| {
            if point == "svs.chunk_fetched" {
                FETCHED.with(|c| c.set(c.get() + 1));
                bystander::on_chunk_fetched();
            }
        })));
        quiet_panics(true);
        // the slow-producer family sleeps through its stalls on its own threads while the pool works
        let slow_family = slow::spawn(args);
        let side = [crowd::spawn(args, false), seq::spawn(args), slowc::spawn(args, false), frag::spawn(args, false), popts::spawn(args, false)];
        run_pool(&mut rep, args, cfgs, pullers_work);
        slow::join(slow_family, &mut rep);
        for f in side {
            sidecar::join(f, &mut rep);
        }
        quiet_panics(false);
        repe::verif_hooks::set_probe(None);
        sidecar_summary(&mut rep, args, false);
        crowd::summary(&mut rep, false);
        seq::summary(&mut rep);
        if rep.get_count("pulls_matching") == 0 && rep.inconclusive.is_empty() {
            rep.inconclusive("no pull completed");
        }
        rep
    }

    include!("c09_bystander.rs");
    include!("c09_slow.rs");
    include!("c09_sidecar.rs");
    include!("c09_popts.rs");
    include!("c09_frag.rs");
    include!("c09_slowc.rs");
    include!("c09_crowd.rs");
    include!("c09_seq.rs");
}
