//! C08 — not built yet.
use crate::common::*;

pub fn run(args: &Args) -> Report {
    let mut rep = Report::new(args, "c08-stub", "stub");
    rep.inconclusive("check not implemented");
    rep
}
