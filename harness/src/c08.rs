//! C08 — bulk numeric bodies are bit-identical to the generic encoding and decode exactly.
//! Stage "inproc" (also run under Miri: this workload reaches beve's unsafe bulk copies and the
//! &[u8] -> &[T] reinterpretation): per element type, values from bit-pattern classes compared AS BITS;
//! bulk vs generic encoder bytes, all four encoder x decoder pairs (empty slice included), streaming
//! writers vs buffered builders, aligned form at every (query length, base misalignment) through the
//! borrowing route with borrowed/copied classification by the address the handler saw, wrong element
//! type / wrong format rejected. Stage "net": the same through Server and AsyncServer with the bulk,
//! aligned and generic client calls.

use crate::common::*;
use beve::{BeveTypedSlice, Complex};
use half::{bf16, f16};
use repe::{BodyFormat, CallContext, ErrorCode, Header, Message, MessageView, QueryFormat, Router};
use serde::{Serialize, de::DeserializeOwned};
use serde_json::json;
use std::sync::{Arc, Mutex};

pub trait Elem: BeveTypedSlice + Serialize + DeserializeOwned + Copy + Send + Sync + 'static {
    const NAME: &'static str;
    fn mk(r: &mut Rng) -> Self;
    fn bits(&self) -> u128;
}

macro_rules! int_elem {
    ($t:ty, $name:expr) => {
        impl Elem for $t {
            const NAME: &'static str = $name;
            fn mk(r: &mut Rng) -> Self {
                match r.below(6) {
                    0 => <$t>::MIN,
                    1 => <$t>::MAX,
                    2 => 0 as $t,
                    3 => 1 as $t,
                    4 => (0 as $t).wrapping_sub(1),
                    _ => r.next_u64() as $t,
                }
            }
            fn bits(&self) -> u128 {
                *self as u128
            }
        }
    };
}
int_elem!(u8, "u8");
int_elem!(u16, "u16");
int_elem!(u32, "u32");
int_elem!(u64, "u64");
int_elem!(i8, "i8");
int_elem!(i16, "i16");
int_elem!(i32, "i32");
int_elem!(i64, "i64");

fn f64_bits(r: &mut Rng) -> u64 {
    match r.below(12) {
        0 => 0x7ff8_0000_0000_0000,                       // quiet NaN
        1 => 0x7ff0_0000_0000_0001,                       // signalling NaN, minimal payload
        2 => 0xfff8_dead_beef_0001,                       // negative NaN with payload
        3 => 0x7ff0_0000_0000_0000,                       // +inf
        4 => 0xfff0_0000_0000_0000,                       // -inf
        5 => 0x8000_0000_0000_0000,                       // -0
        6 => 0,                                           // +0
        7 => 1,                                           // smallest subnormal
        8 => 0x000f_ffff_ffff_ffff,                       // largest subnormal
        9 => 0x7fef_ffff_ffff_ffff,                       // max finite
        10 => 0x7ff0_0000_0000_0000 | (r.next_u64() >> 12).max(1), // random NaN payload
        _ => r.next_u64(),
    }
}
fn f32_bits(r: &mut Rng) -> u32 {
    match r.below(12) {
        0 => 0x7fc0_0000,
        1 => 0x7f80_0001,
        2 => 0xffc0_beef,
        3 => 0x7f80_0000,
        4 => 0xff80_0000,
        5 => 0x8000_0000,
        6 => 0,
        7 => 1,
        8 => 0x007f_ffff,
        9 => 0x7f7f_ffff,
        10 => 0x7f80_0000 | ((r.next_u64() as u32) >> 9).max(1),
        _ => r.next_u64() as u32,
    }
}
fn h16_bits(r: &mut Rng) -> u16 {
    match r.below(10) {
        0 => 0x7e00,
        1 => 0x7c01,
        2 => 0xfe55,
        3 => 0x7c00,
        4 => 0xfc00,
        5 => 0x8000,
        6 => 0,
        7 => 1,
        8 => 0x7bff,
        _ => r.next_u64() as u16,
    }
}
impl Elem for f64 {
    const NAME: &'static str = "f64";
    fn mk(r: &mut Rng) -> Self {
        f64::from_bits(f64_bits(r))
    }
    fn bits(&self) -> u128 {
        self.to_bits() as u128
    }
}
impl Elem for f32 {
    const NAME: &'static str = "f32";
    fn mk(r: &mut Rng) -> Self {
        f32::from_bits(f32_bits(r))
    }
    fn bits(&self) -> u128 {
        self.to_bits() as u128
    }
}
impl Elem for f16 {
    const NAME: &'static str = "f16";
    fn mk(r: &mut Rng) -> Self {
        f16::from_bits(h16_bits(r))
    }
    fn bits(&self) -> u128 {
        self.to_bits() as u128
    }
}
impl Elem for bf16 {
    const NAME: &'static str = "bf16";
    fn mk(r: &mut Rng) -> Self {
        bf16::from_bits(h16_bits(r))
    }
    fn bits(&self) -> u128 {
        self.to_bits() as u128
    }
}

fn bits_of<T: Elem>(xs: &[T]) -> Vec<u128> {
    xs.iter().map(|x| x.bits()).collect()
}

/// A body-format label that is not BEVE (1): the defined other formats, the first unknown ones, codes that equal 1 after
/// truncation or reduction (modulo 32 / 64 / 256, high byte set, bit 0 set), and any other 16-bit value.
fn wrong_label(r: &mut Rng) -> u16 {
    match r.below(4) {
        0 => *r.pick(&[0u16, 2, 3, 4, 5, 9, 77]),
        1 => *r.pick(&[33u16, 65, 129, 257, 513, 1025, 4097, 0x8001, 0xFF01, 0x0101, 0x0100, 4096, 0xFFFF, 0xFFFE]),
        2 => (r.below(2047) as u16 + 1) * 32 + 1,
        _ => loop {
            let v = r.next_u64() as u16;
            if v != 1 {
                break v;
            }
        },
    }
}

fn pick_len(r: &mut Rng, miri: bool, case: u64) -> usize {
    if case % 16 == 0 {
        return 0;
    }
    match r.below(10) {
        0 => 0,
        1 => 1,
        2..=6 => r.usize_below(if miri { 12 } else { 70 }),
        7 => r.usize_below(if miri { 40 } else { 4097 }),
        // around the element counts where the BEVE size prefix changes width (1 -> 2 -> 4 bytes) and around byte-sized counts
        8 => *r.pick(&[63usize, 64, 65, 255, 256, 257, 16_383, 16_384, 16_385]) % if miri { 70 } else { 100_000 },
        _ => {
            if miri {
                r.usize_below(20)
            } else if r.chance(1, 40) {
                *r.pick(&[65_536usize, 1_000_000])
            } else {
                r.usize_below(600)
            }
        }
    }
}

struct Seen {
    addr: usize,
    bits: Vec<u128>,
}

fn check_type<T: Elem, U: Elem>(rep: &mut Report, r: &mut Rng, case: u64, miri: bool) {
    let n = pick_len(r, miri, case);
    let xs: Vec<T> = (0..n).map(|_| T::mk(r)).collect();
    let want = bits_of(&xs);
    let ql = if case % 3 == 0 { (case / 3 % 65) as usize } else { r.usize_below(65) };
    let q: Vec<u8> = (0..ql).map(|i| b'a' + (i % 26) as u8).collect();
    let desc = json!({"type": T::NAME, "len": n, "query_len": ql, "case": case, "first_bits": want.iter().take(4).map(|b| format!("{b:#x}")).collect::<Vec<_>>()});
    rep.eval();
    rep.distinct(&(T::NAME, n.min(9), ql % 8, ql.min(2)));
    let empty_tag = if n == 0 { "empty" } else { "nonempty" };

    // ---- encoders
    let bulk = Message::builder().id(case).query_bytes(q.clone()).body_typed_slice(&xs).build();
    let generic = match Message::builder().id(case).query_bytes(q.clone()).body_beve(&xs) {
        Ok(b) => b.build(),
        Err(e) => {
            rep.violation(format!("C08:generic-encode-failed:{}", T::NAME), e.to_string(), desc);
            return;
        }
    };
    if bulk.header.body_format != BodyFormat::Beve as u16 {
        rep.violation("C08:bulk-format-code", format!("body_typed_slice set body_format {}", bulk.header.body_format), desc.clone());
    }
    // a builder that already holds a body (reused scratch bytes, an earlier setter): every body setter REPLACES the body, so the
    // message equals the one built from a fresh builder
    if case % 3 == 0 {
        let prior = r.usize_below(40);
        let junk = r.bytes(prior);
        let which = case / 3 % 4;
        let used = || {
            let b0 = Message::builder().id(case).query_bytes(q.clone());
            match which {
                0 => b0.body_bytes(junk.clone()),
                1 => b0.body_utf8("earlier text body"),
                2 => b0.body_typed_slice(&xs),
                _ => b0.body_json(&serde_json::json!({"earlier": prior})).unwrap_or_else(|_| Message::builder()),
            }
        };
        let again = used().body_typed_slice(&xs).build();
        if again.body != bulk.body || again.header.body_format != bulk.header.body_format || again.to_vec() != bulk.to_vec() {
            rep.violation(format!("C08:bulk-setter-on-used-builder:typed:{}", ["body_bytes", "body_utf8", "body_typed_slice", "body_json"][which as usize]), format!("{} x{n}: body_typed_slice on a builder that already held a body gives {} ({} bytes), on a fresh builder {} ({} bytes)", T::NAME, hex_trunc(&again.body, 32), again.body.len(), hex_trunc(&bulk.body, 32), bulk.body.len()), desc.clone());
        }
        let fresh_al = Message::builder().id(case).query_bytes(q.clone()).body_aligned_typed_slice(&xs).build();
        let again_al = used().body_aligned_typed_slice(&xs).build();
        if again_al.to_vec() != fresh_al.to_vec() {
            rep.violation(format!("C08:bulk-setter-on-used-builder:aligned:{}", ["body_bytes", "body_utf8", "body_typed_slice", "body_json"][which as usize]), format!("{} x{n}: body_aligned_typed_slice on a used builder differs from a fresh one ({} vs {} body bytes)", T::NAME, again_al.body.len(), fresh_al.body.len()), desc.clone());
        }
        rep.count("bulk_setters_on_used_builders", 2);
    }
    // the same numbers held in a fixed-size array (what `call_typed_beve("/x", &[a, b, c])` serializes): same bytes as the bulk
    // encoding of the slice, and decodable by the bulk decoder
    if n >= 3 && case % 2 == 0 {
        let arr3: [T; 3] = [xs[0], xs[1], xs[2]];
        match Message::builder().body_beve(&arr3) {
            Ok(b) => {
                let g = b.build();
                let bulk3 = Message::builder().body_typed_slice(&arr3[..]).build();
                if g.body != bulk3.body {
                    rep.violation(format!("C08:bulk-vs-generic-bytes:array:{}", T::NAME), format!("[{}; 3] through body_beve: {} != bulk body {}", T::NAME, hex_trunc(&g.body, 40), hex_trunc(&bulk3.body, 40)), desc.clone());
                }
                rep.count("fixed_size_arrays_through_the_generic_encoder", 1);
            }
            Err(e) => rep.violation(format!("C08:generic-encode-failed:array:{}", T::NAME), e.to_string(), desc.clone()),
        }
    }
    if n > 0 && bulk.body != generic.body {
        rep.violation(format!("C08:bulk-vs-generic-bytes:{}", T::NAME), format!("{} x{n}: bulk body {} != generic body {}", T::NAME, hex_trunc(&bulk.body, 40), hex_trunc(&generic.body, 40)), desc.clone());
    }
    // ---- 2 encoders x 2 decoders
    let dec = |rep: &mut Report, enc: &str, decn: &str, res: Result<Result<Vec<T>, String>, String>| match res {
        Ok(Ok(v)) if bits_of(&v) == want => rep.count("cross_decodes_exact", 1),
        Ok(Ok(v)) => {
            let at = bits_of(&v).iter().zip(want.iter()).position(|(a, b)| a != b);
            rep.violation(format!("C08:decode-alters-bits:{enc}->{decn}:{}", T::NAME), format!("{} x{n}: {decn} of the {enc} encoding differs (len {} vs {n}, first differing element {at:?})", T::NAME, v.len()), desc.clone())
        }
        Ok(Err(e)) => rep.violation(format!("C08:decode-rejects:{enc}->{decn}:{empty_tag}"), format!("{} x{n}: {decn} rejected the {enc} encoding ({}): {e}", T::NAME, hex_trunc(if enc == "bulk" { &bulk.body } else { &generic.body }, 24)), desc.clone()),
        Err(p) => rep.violation(format!("C08:panic:{enc}->{decn}:{}", panic_site(&p)), p, desc.clone()),
    };
    dec(rep, "bulk", "decode_typed_slice", catching(|| bulk.decode_typed_slice::<T>().map_err(|e| e.to_string())));
    dec(rep, "generic", "decode_typed_slice", catching(|| generic.decode_typed_slice::<T>().map_err(|e| e.to_string())));
    dec(rep, "bulk", "beve_body", catching(|| bulk.beve_body::<Vec<T>>().map_err(|e| e.to_string())));
    dec(rep, "generic", "beve_body", catching(|| generic.beve_body::<Vec<T>>().map_err(|e| e.to_string())));

    // ---- wrong element type / wrong format must be rejected, not reinterpreted
    // (the empty typed array still names its element type in its header, so this holds at length 0 too)
    if T::CLASS != U::CLASS || T::BYTE_CODE != U::BYTE_CODE {
        match catching(|| bulk.decode_typed_slice::<U>()) {
            Ok(Err(_)) => rep.count("wrong_type_rejected", 1),
            Ok(Ok(v)) => rep.violation(format!("C08:wrong-type-reinterpreted:{}-as-{}", T::NAME, U::NAME), format!("a {} array decoded as {} ({} elements)", T::NAME, U::NAME, v.len()), desc.clone()),
            Err(p) => rep.violation(format!("C08:panic:wrong-type:{}", panic_site(&p)), p, desc.clone()),
        }
    }
    {
        let mut wrong = bulk.clone();
        wrong.header.body_format = wrong_label(r);
        match catching(|| wrong.decode_typed_slice::<T>()) {
            Ok(Err(_)) => rep.count("wrong_format_rejected", 1),
            Ok(Ok(_)) => rep.violation("C08:wrong-format-accepted", format!("decode_typed_slice accepted body_format {}", wrong.header.body_format), desc.clone()),
            Err(p) => rep.violation(format!("C08:panic:wrong-format:{}", panic_site(&p)), p, desc.clone()),
        }
    }

    // ---- streaming writer vs buffered builder
    {
        let mut h = Header::new();
        h.id = case;
        h.query_format = r.boundary_u16();
        h.ec = r.boundary_u32();
        h.body_length = 12345; // garbage: must be overwritten
        h.body_format = *r.pick(&[0u16, 1, 2, 3, 77]); // whatever the caller's header carried, the bulk writer emits BEVE
        let mut streamed = vec![];
        let res = catching(|| repe::write_message_typed_slice(&mut streamed, h, &q, &xs));
        let mut owned = bulk.clone();
        owned.header.query_format = h.query_format;
        owned.header.ec = h.ec;
        let mut framed = vec![];
        repe::write_message(&mut framed, &owned).unwrap();
        match res {
            Ok(Ok(())) if streamed == framed && owned.clone().into_wire_bytes() == framed => rep.count("streaming_frames_equal", 1),
            Ok(Ok(())) => rep.violation(format!("C08:streaming-vs-buffered:{}", T::NAME), format!("{} x{n} query {ql}: write_message_typed_slice frame ({} bytes) differs from the buffered frame ({} bytes)", T::NAME, streamed.len(), framed.len()), desc.clone()),
            Ok(Err(e)) => rep.violation("C08:streaming-writer-error", e.to_string(), desc.clone()),
            Err(p) => rep.violation(format!("C08:panic:streaming:{}", panic_site(&p)), p, desc.clone()),
        }
    }

    // ---- aligned form through the borrowing route at every base misalignment
    let seen: Arc<Mutex<Option<Seen>>> = Arc::new(Mutex::new(None));
    let s2 = seen.clone();
    let router = Router::new().with_typed_slice_ref("/r", move |ys: &[T]| -> Result<Vec<T>, (ErrorCode, String)> {
        *s2.lock().unwrap() = Some(Seen { addr: ys.as_ptr() as usize, bits: bits_of(ys) });
        Ok(ys.iter().rev().cloned().collect())
    });
    let h = router.get("/r").unwrap();
    let amsg = Message::builder().id(case).query_bytes(q.clone()).query_format(QueryFormat::JsonPointer).body_aligned_typed_slice(&xs).build();
    let wire_a = amsg.to_vec();
    let wire_b = amsg.clone().into_wire_bytes();
    if wire_a != wire_b {
        rep.violation("C08:aligned:into_wire_bytes-differs", format!("{} x{n} query {ql}", T::NAME), desc.clone());
    }
    // owned decode of the aligned body
    match catching(|| amsg.decode_typed_slice::<T>()) {
        Ok(Ok(v)) if bits_of(&v) == want => {}
        // the docs pair the aligned form with the borrowing route; the owned generic decoder may not accept it
        Ok(Err(_)) => rep.count("aligned_body_not_decodable_by_plain_decoder", 1),
        Ok(Ok(_)) => rep.violation(format!("C08:aligned:owned-decode-alters:{}", T::NAME), format!("{} x{n} query {ql}", T::NAME), desc.clone()),
        Err(p) => rep.violation(format!("C08:panic:aligned-owned:{}", panic_site(&p)), p, desc.clone()),
    }
    let align = std::mem::align_of::<T>();
    let payload_off = wire_a.len() - std::mem::size_of_val(xs.as_slice());
    let mut arena = vec![0u8; wire_a.len() + 32];
    let base0 = (16 - (arena.as_ptr() as usize % 16)) % 16;
    for mis in 0..8usize {
        let base = base0 + mis;
        arena[base..base + wire_a.len()].copy_from_slice(&wire_a);
        let lo = arena.as_ptr() as usize;
        let hi = lo + arena.len();
        let view = MessageView::from_slice(&arena[base..base + wire_a.len()]).unwrap();
        *seen.lock().unwrap() = None;
        rep.eval();
        let res = catching(|| h.handle_view(&view, &CallContext::detached("/r")));
        match res {
            Ok(Ok(resp)) => {
                let s = seen.lock().unwrap().take();
                let Some(s) = s else {
                    rep.violation(format!("C08:aligned:handler-not-invoked:{}", T::NAME), format!("{} x{n} query {ql} misalign {mis}: response ec={} body {}", T::NAME, resp.header.ec, String::from_utf8_lossy(&resp.body)), desc.clone());
                    continue;
                };
                if s.bits != want {
                    rep.violation(format!("C08:aligned:elements-differ:{}", T::NAME), format!("{} x{n} query {ql} misalign {mis}: the borrowing route saw different elements", T::NAME), json!({"type": T::NAME, "len": n, "query_len": ql, "misalign": mis}));
                }
                let back = resp.decode_typed_slice::<T>().map(|v| bits_of(&v));
                let mut rev = want.clone();
                rev.reverse();
                if resp.header.ec != 0 || back.as_ref().ok() != Some(&rev) {
                    rep.violation(format!("C08:aligned:response-differs:{}", T::NAME), format!("{} x{n} query {ql} misalign {mis}: ec {} / wrong result", T::NAME, resp.header.ec), desc.clone());
                }
                if n > 0 {
                    let payload_addr = lo + base + payload_off;
                    let should_borrow = payload_addr % align == 0;
                    // the whole point of the padded form: a frame landing on an aligned buffer has an aligned payload
                    if (lo + base) % align == 0 && !should_borrow {
                        rep.violation("C08:aligned:padding-wrong", format!("{} x{n} query {ql}: frame at an {align}-aligned address but payload offset {payload_off} is not a multiple of {align}", T::NAME), json!({"type": T::NAME, "len": n, "query_len": ql}));
                    }
                    let borrowed = s.addr >= lo && s.addr < hi;
                    rep.count(if borrowed { "aligned_borrowed" } else { "aligned_copied" }, 1);
                    if borrowed != should_borrow {
                        rep.violation(
                            format!("C08:aligned:borrow-classification:{}", if should_borrow { "copied-although-aligned" } else { "borrowed-although-unaligned" }),
                            format!("{} x{n} query {ql} misalign {mis}: payload address % {align} = {}, handler slice {} the receive buffer", T::NAME, payload_addr % align, if borrowed { "inside" } else { "outside" }),
                            json!({"type": T::NAME, "len": n, "query_len": ql, "misalign": mis}),
                        );
                    }
                    if borrowed && s.addr != payload_addr {
                        rep.violation("C08:aligned:borrowed-wrong-offset", format!("borrowed slice starts at +{} but the payload is at +{}", s.addr - lo, payload_addr - lo), desc.clone());
                    }
                }
            }
            Ok(Err(e)) => rep.violation(format!("C08:aligned:route-error:{}", T::NAME), format!("{} x{n} query {ql} misalign {mis}: {e}", T::NAME), desc.clone()),
            Err(p) => rep.violation(format!("C08:panic:aligned-route:{}", panic_site(&p)), p, desc.clone()),
        }
    }
    // the aligned form through the OWNED entry points of the borrowing route (what a middleware-wrapped
    // route or the WebSocket off-reader path uses): same elements, same answer
    {
        let mw_router = Router::new()
            .with_typed_slice_ref("/r", {
                let s3 = seen.clone();
                move |ys: &[T]| -> Result<Vec<T>, (ErrorCode, String)> {
                    *s3.lock().unwrap() = Some(Seen { addr: ys.as_ptr() as usize, bits: bits_of(ys) });
                    Ok(ys.iter().rev().cloned().collect())
                }
            })
            .with_middleware(|req: &Message, next: repe::Next<'_>| next.run(req));
        let hm = mw_router.get("/r").unwrap();
        let w = amsg.to_vec();
        let ctx = CallContext::detached("/r");
        let runs: [(&str, Box<dyn Fn() -> Result<Message, repe::RepeError> + '_>); 4] = [
            ("handle", Box::new(|| h.handle(&amsg))),
            ("handle_with_ctx", Box::new(|| h.handle_with_ctx(&amsg, &ctx))),
            ("middleware.handle", Box::new(|| hm.handle(&amsg))),
            ("middleware.handle_view", Box::new(|| hm.handle_view(&MessageView::from_slice(&w).unwrap(), &ctx))),
        ];
        let mut rev = want.clone();
        rev.reverse();
        for (name, f) in runs.iter() {
            *seen.lock().unwrap() = None;
            rep.eval();
            match catching(|| f()) {
                Ok(Ok(resp)) => {
                    let s = seen.lock().unwrap().take();
                    let back = resp.decode_typed_slice::<T>().map(|v| bits_of(&v)).ok();
                    if resp.header.ec != 0 || s.as_ref().map(|s| &s.bits) != Some(&want) || back.as_ref() != Some(&rev) {
                        rep.violation(format!("C08:aligned:owned-path:{name}"), format!("{} x{n} query {ql}: the aligned form through {name} answered ec {} ({}), handler invoked: {}", T::NAME, resp.header.ec, String::from_utf8_lossy(&resp.body[..resp.body.len().min(80)]), s.is_some()), desc.clone());
                    } else {
                        rep.count("aligned_owned_path_ok", 1);
                    }
                }
                Ok(Err(e)) => rep.violation(format!("C08:aligned:owned-path:{name}"), format!("{} x{n} query {ql}: the aligned form through {name} returned Err({e})", T::NAME), desc.clone()),
                Err(p) => rep.violation(format!("C08:panic:aligned-owned-path:{}", panic_site(&p)), p, desc.clone()),
            }
        }
    }
    // the borrowing route is a superset: it must accept the regular and the generic encodings too
    for (name, m) in [("bulk", &bulk), ("generic", &generic)] {
        let mut m2 = m.clone();
        m2.header.query_format = QueryFormat::JsonPointer as u16;
        let w = m2.to_vec();
        *seen.lock().unwrap() = None;
        match catching(|| h.handle_view(&MessageView::from_slice(&w).unwrap(), &CallContext::detached("/r"))) {
            Ok(Ok(resp)) => {
                let s = seen.lock().unwrap().take();
                if resp.header.ec != 0 || s.as_ref().map(|s| &s.bits) != Some(&want) {
                    rep.violation(format!("C08:ref-route-rejects:{name}:{empty_tag}"), format!("{} x{n}: with_typed_slice_ref route given the {name} encoding answered ec {} ({})", T::NAME, resp.header.ec, String::from_utf8_lossy(&resp.body[..resp.body.len().min(80)])), desc.clone());
                }
            }
            Ok(Err(e)) => rep.violation(format!("C08:ref-route-rejects:{name}:{empty_tag}"), format!("{} x{n}: with_typed_slice_ref route given the {name} encoding returned Err({e})", T::NAME), desc.clone()),
            Err(p) => rep.violation(format!("C08:panic:ref-route:{}", panic_site(&p)), p, desc.clone()),
        }
    }
    // wrong body-format code on the borrowing route: rejected, handler not invoked
    for m in [&bulk, &amsg] {
        let mut m2 = (*m).clone();
        m2.header.query_format = QueryFormat::JsonPointer as u16;
        m2.header.body_format = wrong_label(r);
        let w = m2.to_vec();
        *seen.lock().unwrap() = None;
        let res = catching(|| h.handle_view(&MessageView::from_slice(&w).unwrap(), &CallContext::detached("/r")));
        let res2 = catching(|| h.handle(&m2));
        let invoked = seen.lock().unwrap().is_some();
        let rejected = |r: &Result<Result<Message, repe::RepeError>, String>| matches!(r, Ok(Err(_))) || matches!(r, Ok(Ok(x)) if x.header.ec != 0);
        if invoked || !rejected(&res) || !rejected(&res2) {
            rep.violation("C08:ref-route:wrong-format-accepted", format!("{} x{n}: with_typed_slice_ref route accepted a body tagged with format code {} (handler invoked: {invoked})", T::NAME, m2.header.body_format), desc.clone());
        } else {
            rep.count("wrong_format_rejected", 1);
        }
    }
    // wrong body-format code on the PLAIN (owning) route: rejected on both handler entry points, handler not invoked
    {
        let hit = Arc::new(std::sync::atomic::AtomicBool::new(false));
        let h2 = hit.clone();
        let prouter = Router::new().with_typed_slice("/p", move |ys: Vec<T>| -> Result<Vec<T>, (ErrorCode, String)> {
            h2.store(true, std::sync::atomic::Ordering::SeqCst);
            Ok(ys.into_iter().rev().collect())
        });
        let ph = prouter.get("/p").unwrap();
        for _ in 0..2 {
            let mut m2 = bulk.clone();
            m2.header.query_format = QueryFormat::JsonPointer as u16;
            m2.header.body_format = wrong_label(r);
            let w = m2.to_vec();
            hit.store(false, std::sync::atomic::Ordering::SeqCst);
            let res = catching(|| ph.handle_view(&MessageView::from_slice(&w).unwrap(), &CallContext::detached("/p")));
            let res2 = catching(|| ph.handle(&m2));
            let invoked = hit.load(std::sync::atomic::Ordering::SeqCst);
            let rejected = |r: &Result<Result<Message, repe::RepeError>, String>| matches!(r, Ok(Err(_))) || matches!(r, Ok(Ok(x)) if x.header.ec != 0);
            if invoked || !rejected(&res) || !rejected(&res2) {
                rep.violation("C08:plain-route:wrong-format-accepted", format!("{} x{n}: with_typed_slice route accepted a body tagged with format code {} (handler invoked: {invoked})", T::NAME, m2.header.body_format), desc.clone());
            } else {
                rep.count("wrong_format_rejected_plain_route", 1);
            }
        }
    }
    // wrong element type sent to the borrowing route: rejected (empty arrays of the wrong type included)
    if T::CLASS != U::CLASS || T::BYTE_CODE != U::BYTE_CODE {
        let other: Vec<U> = (0..n.min(5)).map(|_| U::mk(r)).collect();
        let m = Message::builder().id(1).query_str("/r").query_format(QueryFormat::JsonPointer).body_aligned_typed_slice(&other).build();
        let w = m.to_vec();
        *seen.lock().unwrap() = None;
        let res = catching(|| h.handle_view(&MessageView::from_slice(&w).unwrap(), &CallContext::detached("/r")));
        let invoked = seen.lock().unwrap().is_some();
        let rejected = matches!(&res, Ok(Err(_))) || matches!(&res, Ok(Ok(m)) if m.header.ec != 0);
        if invoked || !rejected {
            rep.violation(format!("C08:aligned:wrong-type-reinterpreted:{}-as-{}", U::NAME, T::NAME), format!("an aligned {} array reached a {} borrowing route (handler invoked: {invoked})", U::NAME, T::NAME), desc.clone());
        }
    }
}

fn check_complex<T: Elem>(rep: &mut Report, r: &mut Rng, case: u64, miri: bool)
where
    Complex<T>: Serialize + DeserializeOwned,
{
    let n = pick_len(r, miri, case).min(5000);
    let xs: Vec<Complex<T>> = (0..n).map(|_| Complex { re: T::mk(r), im: T::mk(r) }).collect();
    let want: Vec<(u128, u128)> = xs.iter().map(|c| (c.re.bits(), c.im.bits())).collect();
    let q = r.bytes(case as usize % 20);
    let desc = json!({"type": format!("Complex<{}>", T::NAME), "len": n, "case": case});
    rep.eval();
    rep.distinct(&("complex", T::NAME, n.min(9)));
    let bulk = Message::builder().query_bytes(q.clone()).body_complex_slice(&xs).build();
    let generic = Message::builder().query_bytes(q.clone()).body_beve(&xs).map(|b| b.build());
    let empty_tag = if n == 0 { "empty" } else { "nonempty" };
    let cb = |v: &Vec<Complex<T>>| v.iter().map(|c| (c.re.bits(), c.im.bits())).collect::<Vec<_>>();
    match &generic {
        Ok(g) => {
            if n > 0 && g.body != bulk.body {
                rep.violation(format!("C08:bulk-vs-generic-bytes:complex-{}", T::NAME), format!("Complex<{}> x{n}: bulk {} generic {}", T::NAME, hex_trunc(&bulk.body, 32), hex_trunc(&g.body, 32)), desc.clone());
            }
            match catching(|| g.decode_complex_slice::<T>()) {
                Ok(Ok(v)) if cb(&v) == want => rep.count("cross_decodes_exact", 1),
                Ok(Ok(_)) => rep.violation(format!("C08:decode-alters-bits:generic->decode_complex_slice:{}", T::NAME), "complex elements differ".to_string(), desc.clone()),
                Ok(Err(e)) => rep.violation(format!("C08:decode-rejects:generic->decode_complex_slice:{empty_tag}"), format!("Complex<{}> x{n}: {e} (body {})", T::NAME, hex_trunc(&g.body, 24)), desc.clone()),
                Err(p) => rep.violation(format!("C08:panic:complex:{}", panic_site(&p)), p, desc.clone()),
            }
        }
        Err(e) => rep.violation("C08:generic-encode-failed:complex", e.to_string(), desc.clone()),
    }
    match catching(|| bulk.decode_complex_slice::<T>()) {
        Ok(Ok(v)) if cb(&v) == want => rep.count("cross_decodes_exact", 1),
        Ok(Ok(_)) => rep.violation(format!("C08:decode-alters-bits:bulk->decode_complex_slice:{}", T::NAME), "complex elements differ".to_string(), desc.clone()),
        Ok(Err(e)) => rep.violation(format!("C08:decode-rejects:bulk->decode_complex_slice:{empty_tag}"), e.to_string(), desc.clone()),
        Err(p) => rep.violation(format!("C08:panic:complex:{}", panic_site(&p)), p, desc.clone()),
    }
    match catching(|| bulk.beve_body::<Vec<Complex<T>>>()) {
        Ok(Ok(v)) if cb(&v) == want => rep.count("cross_decodes_exact", 1),
        Ok(Ok(_)) => rep.violation(format!("C08:decode-alters-bits:bulk->beve_body:complex-{}", T::NAME), "complex elements differ".to_string(), desc.clone()),
        Ok(Err(e)) => rep.violation(format!("C08:decode-rejects:bulk->beve_body:complex:{empty_tag}"), e.to_string(), desc.clone()),
        Err(p) => rep.violation(format!("C08:panic:complex:{}", panic_site(&p)), p, desc.clone()),
    }
    // streaming writer
    let mut h = Header::new();
    h.id = 5;
    let mut streamed = vec![];
    let res = catching(|| repe::write_message_complex_slice(&mut streamed, h, &q, &xs));
    let mut owned = bulk.clone();
    owned.header.id = 5;
    let mut framed = vec![];
    repe::write_message(&mut framed, &owned).unwrap();
    match res {
        Ok(Ok(())) if streamed == framed => rep.count("streaming_frames_equal", 1),
        Ok(Ok(())) => rep.violation(format!("C08:streaming-vs-buffered:complex-{}", T::NAME), format!("Complex<{}> x{n}", T::NAME), desc.clone()),
        Ok(Err(e)) => rep.violation("C08:streaming-writer-error", e.to_string(), desc.clone()),
        Err(p) => rep.violation(format!("C08:panic:streaming:{}", panic_site(&p)), p, desc.clone()),
    }
    // a complex body is not a plain numeric array of T
    if n > 0 {
        match catching(|| bulk.decode_typed_slice::<T>()) {
            Ok(Err(_)) => rep.count("wrong_type_rejected", 1),
            Ok(Ok(v)) => rep.violation("C08:wrong-type-reinterpreted:complex-as-scalar", format!("complex array decoded as {} scalars", v.len()), desc.clone()),
            Err(p) => rep.violation(format!("C08:panic:complex:{}", panic_site(&p)), p, desc.clone()),
        }
    }
}

pub fn run(args: &Args) -> Report {
    #[cfg(feature = "net")]
    if args.stage.starts_with("net") {
        return net::run(args);
    }
    let mut rep = Report::new(
        args,
        "c08-inproc",
        "12 element types (u8..u64, i8..i64, f32, f64, f16, bf16) + Complex<f32/f64>; lengths 0..4096 plus 65 536 / 1 000 000; values \
         from bit-pattern classes (NaN payloads, +-inf, +-0, subnormals, integer extremes) compared as bits; query lengths 0..64 (all \
         residues mod 8); receive-buffer misalignments 0..7; distinct = (type, min(len,9), query length mod 8, small query)",
    );
    let miri = args.stage.starts_with("miri");
    let n = args.budget(3_000, 120_000);
    let mut rng = Rng::new(args.seed ^ 0xC08);
    quiet_panics(true);
    for case in 0..n {
        let mut r = rng.fork(case);
        match case % 14 {
            0 => check_type::<u8, i8>(&mut rep, &mut r, case, miri),
            1 => check_type::<u16, f16>(&mut rep, &mut r, case, miri),
            2 => check_type::<u32, f32>(&mut rep, &mut r, case, miri),
            3 => check_type::<u64, f64>(&mut rep, &mut r, case, miri),
            4 => check_type::<i8, u8>(&mut rep, &mut r, case, miri),
            5 => check_type::<i16, u16>(&mut rep, &mut r, case, miri),
            6 => check_type::<i32, i64>(&mut rep, &mut r, case, miri),
            7 => check_type::<i64, u64>(&mut rep, &mut r, case, miri),
            8 => check_type::<f32, f64>(&mut rep, &mut r, case, miri),
            9 => check_type::<f64, i64>(&mut rep, &mut r, case, miri),
            10 => check_type::<f16, bf16>(&mut rep, &mut r, case, miri),
            11 => check_type::<bf16, f16>(&mut rep, &mut r, case, miri),
            12 => check_complex::<f32>(&mut rep, &mut r, case, miri),
            _ => check_complex::<f64>(&mut rep, &mut r, case, miri),
        }
        if case < 3 {
            rep.sample(json!({"case": case, "type_index": case % 14}));
        }
    }
    quiet_panics(false);
    if rep.get_count("aligned_borrowed") == 0 || rep.get_count("aligned_copied") == 0 {
        rep.inconclusive("the aligned workload never saw both a borrowed and a copied decode");
    }
    rep
}

#[cfg(feature = "net")]
mod net {
    use super::*;
    use repe::{AsyncClient, AsyncServer, Client, Server};

    fn router(log: Arc<Mutex<Vec<(String, usize, bool)>>>) -> Router {
        let l1 = log.clone();
        let l2 = log.clone();
        let l3 = log.clone();
        Router::new()
            .with_typed_slice("/slice/f64", move |xs: Vec<f64>| -> Result<Vec<f64>, (ErrorCode, String)> {
                l1.lock().unwrap().push(("slice".into(), xs.len(), false));
                Ok(xs.into_iter().rev().collect())
            })
            .with_typed_slice_ref("/ref/f64", move |xs: &[f64]| -> Result<Vec<f64>, (ErrorCode, String)> {
                l2.lock().unwrap().push(("ref".into(), xs.len(), (xs.as_ptr() as usize) % 8 == 0));
                Ok(xs.iter().rev().cloned().collect())
            })
            .with_typed::<Vec<f64>, Vec<f64>, _>("/typed/f64", move |xs: Vec<f64>| -> Result<repe::TypedResponse<Vec<f64>>, (ErrorCode, String)> {
                l3.lock().unwrap().push(("typed".into(), xs.len(), false));
                Ok(repe::TypedResponse::beve(xs.into_iter().rev().collect()))
            })
            .with_typed_slice("/slice/i32", |xs: Vec<i32>| -> Result<Vec<i32>, (ErrorCode, String)> { Ok(xs.into_iter().rev().collect()) })
            .with_typed_slice_ref("/ref/i32", |xs: &[i32]| -> Result<Vec<i32>, (ErrorCode, String)> { Ok(xs.iter().rev().cloned().collect()) })
            .with_typed_slice_ref("/ref/u16", |xs: &[u16]| -> Result<Vec<u16>, (ErrorCode, String)> { Ok(xs.iter().rev().cloned().collect()) })
    }

    pub fn run(args: &Args) -> Report {
        let mut rep = Report::new(
            args,
            "c08-net",
            "Server and AsyncServer with with_typed_slice / with_typed_slice_ref / with_typed routes; Client and AsyncClient calls \
             call_typed_slice, call_typed_slice_aligned, call_typed_beve with f64/i32/u16 vectors (empty included, bit-pattern values); \
             result must be the exact reversed input, wrong element type must be an error; distinct = (server, route, call kind, min(len,9))",
        );
        let log = Arc::new(Mutex::new(vec![]));
        let rt = tokio::runtime::Builder::new_multi_thread().worker_threads(4).enable_all().build().unwrap();
        // blocking server
        let srv = Server::new(router(log.clone()));
        let l = srv.listen("127.0.0.1:0").unwrap();
        let addr_b = l.local_addr().unwrap();
        std::thread::spawn(move || {
            let _ = srv.serve(l);
        });
        // async server
        let asrv = AsyncServer::new(router(log.clone()));
        let addr_a = rt.block_on(async {
            let l = AsyncServer::listen("127.0.0.1:0").await.unwrap();
            let a = l.local_addr().unwrap();
            tokio::spawn(async move {
                let _ = asrv.serve(l).await;
            });
            a
        });
        let n = args.budget(400, 20_000);
        let mut rng = Rng::new(args.seed ^ 0xC08E);
        let bits = |v: &[f64]| v.iter().map(|x| x.to_bits()).collect::<Vec<_>>();
        for (sname, addr) in [("server", addr_b), ("async_server", addr_a)] {
            let c = match Client::connect(addr) {
                Ok(c) => c,
                Err(e) => {
                    rep.inconclusive(format!("connect {sname}: {e}"));
                    continue;
                }
            };
            let ac = match rt.block_on(AsyncClient::connect(addr)) {
                Ok(c) => c,
                Err(e) => {
                    rep.inconclusive(format!("async connect {sname}: {e}"));
                    continue;
                }
            };
            for case in 0..n {
                let mut r = rng.fork(case);
                let len = if case % 9 == 0 { 0 } else { pick_len(&mut r, false, case).min(20_000) };
                let xs: Vec<f64> = (0..len).map(|_| f64::mk(&mut r)).collect();
                let mut want = bits(&xs);
                want.reverse();
                let route = *r.pick(&["/slice/f64", "/ref/f64", "/typed/f64"]);
                let kind = *r.pick(&["slice", "aligned", "beve", "a_slice", "a_aligned", "a_beve"]);
                rep.eval();
                rep.distinct(&(sname, route, kind, len.min(9)));
                let res: Result<Vec<f64>, String> = match kind {
                    "slice" => c.call_typed_slice::<_, f64, f64>(route, &xs).map_err(|e| e.to_string()),
                    "aligned" => c.call_typed_slice_aligned::<_, f64, f64>(route, &xs).map_err(|e| e.to_string()),
                    "beve" => c.call_typed_beve::<_, Vec<f64>, Vec<f64>>(route, &xs).map_err(|e| e.to_string()),
                    "a_slice" => rt.block_on(ac.call_typed_slice::<_, f64, f64>(route, &xs)).map_err(|e| e.to_string()),
                    "a_aligned" => rt.block_on(ac.call_typed_slice_aligned::<_, f64, f64>(route, &xs)).map_err(|e| e.to_string()),
                    _ => rt.block_on(ac.call_typed_beve::<_, Vec<f64>, Vec<f64>>(route, &xs)).map_err(|e| e.to_string()),
                };
                let aligned_to_nonref = kind.ends_with("aligned") && route != "/ref/f64";
                let empty_tag = if len == 0 { "empty" } else { "nonempty" };
                match res {
                    Ok(v) if !aligned_to_nonref && bits(&v) == want => rep.count("exact_roundtrips", 1),
                    Ok(v) if aligned_to_nonref => {
                        // the aligned form pairs only with the borrowing route; if a regular route accepts it the result must still be exact
                        if bits(&v) != want {
                            rep.violation("C08:net:aligned-to-regular-route-wrong-result", format!("{sname} {route} {kind} x{len}"), json!({"server": sname, "route": route, "kind": kind, "len": len}));
                        }
                    }
                    Ok(v) => rep.violation(format!("C08:net:result-differs:{route}:{kind}"), format!("{sname} {route} {kind} x{len}: got {} elements, bits differ", v.len()), json!({"server": sname, "route": route, "kind": kind, "len": len})),
                    Err(_) if aligned_to_nonref => rep.count("aligned_to_regular_route_rejected", 1),
                    Err(e) => rep.violation(format!("C08:net:call-failed:{route}:{}:{empty_tag}", kind.trim_start_matches("a_")), format!("{sname} {route} {kind} x{len}: {e}"), json!({"server": sname, "route": route, "kind": kind, "len": len})),
                }
                if case % 7 == 0 && len > 0 {
                    // wrong element type: f64 data to an i32 / u16 route
                    let r2 = c.call_typed_slice::<_, f64, i32>("/slice/i32", &xs);
                    let r3 = c.call_typed_slice_aligned::<_, f64, u16>("/ref/u16", &xs);
                    if r2.is_ok() || r3.is_ok() {
                        rep.violation("C08:net:wrong-type-reinterpreted", format!("{sname}: f64 data accepted by an i32/u16 route"), json!({"server": sname, "len": len}));
                    } else {
                        rep.count("wrong_type_rejected", 2);
                    }
                    // and the connection still works
                    let ok = c.call_typed_slice::<_, i32, i32>("/slice/i32", &[1, 2, 3]);
                    if ok.as_ref().ok() != Some(&vec![3, 2, 1]) {
                        rep.violation("C08:net:connection-broken-after-rejection", format!("{sname}: follow-up call gave {ok:?}"), json!({"server": sname}));
                    }
                }
            }
        }
        // ---- frames the real clients put on the wire for the aligned call, captured by a raw peer: byte-identical to
        // the builder's frame for the same query and slice, payload offset a multiple of the element alignment (the
        // sync and async clients must pad for 48 + query length, whatever the query length is)
        {
            use std::io::{Read, Write};
            let capture = |rep: &mut Report, who: &str, path: &str, n: usize, call: &dyn Fn(std::net::SocketAddr) -> Result<Vec<f64>, String>, xs: &[f64]| {
                let l = match std::net::TcpListener::bind("127.0.0.1:0") {
                    Ok(l) => l,
                    Err(e) => return rep.inconclusive(format!("capture bind: {e}")),
                };
                let addr = l.local_addr().unwrap();
                let rev: Vec<f64> = xs.iter().rev().cloned().collect();
                let th = std::thread::spawn(move || -> Option<Vec<u8>> {
                    let (mut s, _) = l.accept().ok()?;
                    s.set_read_timeout(Some(std::time::Duration::from_secs(8))).ok();
                    let mut hdr = [0u8; 48];
                    s.read_exact(&mut hdr).ok()?;
                    let h = crate::oracle::SpecHeader::decode(&hdr);
                    if !h.consistent() || h.length > (64 << 20) {
                        return Some(hdr.to_vec());
                    }
                    let mut rest = vec![0u8; (h.length - 48) as usize];
                    s.read_exact(&mut rest).ok()?;
                    let mut frame = hdr.to_vec();
                    frame.extend_from_slice(&rest);
                    let resp = Message::builder().id(h.id).query_bytes(rest[..h.query_length as usize].to_vec()).query_format(QueryFormat::JsonPointer).body_typed_slice(&rev).build();
                    let _ = s.write_all(&resp.to_vec());
                    Some(frame)
                });
                let got = call(addr);
                let frame = th.join().ok().flatten();
                rep.eval();
                rep.distinct(&("capture", who, path.len() % 8, n.min(3)));
                let Some(frame) = frame else {
                    return rep.inconclusive(format!("capture: {who} sent no complete frame for {path}"));
                };
                let Some((h, ql, bl)) = crate::oracle::valid_parse(&frame, true) else {
                    return rep.violation(format!("C08:client-frame-malformed:{who}"), format!("{who} {path}: captured bytes are not one frame"), json!({"client": who, "path": path}));
                };
                let want = Message::builder().id(h.id).query_str(path).query_format(QueryFormat::JsonPointer).body_aligned_typed_slice(xs).build();
                let body = &frame[48 + ql..48 + ql + bl];
                let payload_off = frame.len() - std::mem::size_of_val(xs);
                if frame[48..48 + ql] != *path.as_bytes() || body != want.body.as_slice() || h.body_format != want.header.body_format {
                    rep.violation(
                        format!("C08:client-frame-differs-from-builder:{who}"),
                        format!("{who} call_typed_slice_aligned({path:?}, {n} x f64): body on the wire {} differs from the builder's {} (query length {ql})", hex_trunc(body, 24), hex_trunc(&want.body, 24)),
                        json!({"client": who, "path": path, "len": n}),
                    );
                } else if n > 0 && payload_off % 8 != 0 {
                    rep.violation(format!("C08:client-frame-padding:{who}"), format!("{who} {path}: payload at frame offset {payload_off}, not a multiple of 8"), json!({"client": who, "path": path}));
                } else {
                    rep.count("client_frames_captured_identical_to_builder", 1);
                }
                let mut want_bits = bits(xs);
                want_bits.reverse();
                match got {
                    Ok(v) if bits(&v) == want_bits => {}
                    other => rep.violation(format!("C08:client-capture-result:{who}"), format!("{who} {path}: call returned {:?}", other.map(|v| v.len())), json!({"client": who, "path": path})),
                }
            };
            let paths = ["/r", "/re", "/ref", "/ref4", "/ref/5", "/ref/f6", "/ref/f64", "/ref/f64x", "/a/much/longer/route/name/17", "/é"];
            for (i, path) in paths.iter().enumerate() {
                for n in [0usize, 1, 5] {
                    let xs: Vec<f64> = (0..n).map(|k| f64::from_bits(0x7ff8_0000_0000_0001 + (i * 10 + k) as u64)).collect();
                    let xs2 = xs.clone();
                    let p2 = path.to_string();
                    capture(&mut rep, "client", path, n, &|addr| Client::connect(addr).map_err(|e| e.to_string()).and_then(|c| c.call_typed_slice_aligned::<_, f64, f64>(&p2, &xs2).map_err(|e| e.to_string())), &xs);
                    let xs3 = xs.clone();
                    let p3 = path.to_string();
                    let rt2 = &rt;
                    capture(&mut rep, "async_client", path, n, &|addr| rt2.block_on(async { AsyncClient::connect(addr).await.map_err(|e| e.to_string())?.call_typed_slice_aligned::<_, f64, f64>(&p3, &xs3).await.map_err(|e| e.to_string()) }), &xs);
                }
            }
        }
        // ---- replies: a raw peer answers the clients' bulk calls with a body whose format label or element type is wrong.
        // Every typed-slice entry point of both clients must refuse it rather than reinterpret the bytes (and accept the
        // correctly labelled control).
        {
            use std::io::{Read, Write};
            let xs: Vec<f64> = vec![1.5, -2.25, f64::from_bits(0x7ff8_0000_0000_0042), 0.0];
            let good = Message::builder().body_typed_slice(&xs).build().body;
            let f32s = Message::builder().body_typed_slice(&[1.0f32, 2.0, 3.0, 4.0]).build().body;
            let text = b"D 0123456789abcdef0123456789abcdef".to_vec();
            let mut cases: Vec<(u16, Vec<u8>, bool, &str)> = vec![(1, good.clone(), true, "beve-f64 (control)")];
            for label in [0u16, 2, 3, 4, 33, 257, 4096, 4097, 0x8001, 0xffff] {
                cases.push((label, good.clone(), false, "f64 typed array under a non-BEVE label"));
            }
            cases.push((0, text.clone(), false, "ASCII text under RawBinary"));
            cases.push((3, text, false, "ASCII text under UTF-8"));
            cases.push((1, f32s.clone(), false, "f32 typed array where f64 was requested"));
            cases.push((0, f32s, false, "f32 typed array under RawBinary"));
            cases.push((2, b"[1.5,-2.25,0,0]".to_vec(), false, "JSON array under JSON"));
            cases.push((1, good[..good.len() - 3].to_vec(), false, "truncated f64 typed array"));
            type CallFn<'a> = Box<dyn Fn(std::net::SocketAddr) -> Result<Vec<f64>, String> + 'a>;
            let rt2 = &rt;
            let entry_points: Vec<(&str, CallFn)> = vec![
                ("client.call_typed_slice", Box::new(|a| Client::connect(a).map_err(|e| e.to_string())?.call_typed_slice::<_, f64, f64>("/p", &[1.0]).map_err(|e| e.to_string()))),
                ("client.call_typed_slice_with_timeout", Box::new(|a| Client::connect(a).map_err(|e| e.to_string())?.call_typed_slice_with_timeout::<_, f64, f64>("/p", &[1.0], std::time::Duration::from_secs(8)).map_err(|e| e.to_string()))),
                ("client.call_typed_slice_aligned", Box::new(|a| Client::connect(a).map_err(|e| e.to_string())?.call_typed_slice_aligned::<_, f64, f64>("/p", &[1.0]).map_err(|e| e.to_string()))),
                ("client.call_typed_slice_aligned_with_timeout", Box::new(|a| Client::connect(a).map_err(|e| e.to_string())?.call_typed_slice_aligned_with_timeout::<_, f64, f64>("/p", &[1.0], std::time::Duration::from_secs(8)).map_err(|e| e.to_string()))),
                ("async_client.call_typed_slice", Box::new(move |a| rt2.block_on(async { AsyncClient::connect(a).await.map_err(|e| e.to_string())?.call_typed_slice::<_, f64, f64>("/p", &[1.0]).await.map_err(|e| e.to_string()) }))),
                ("async_client.call_typed_slice_with_timeout", Box::new(move |a| rt2.block_on(async { AsyncClient::connect(a).await.map_err(|e| e.to_string())?.call_typed_slice_with_timeout::<_, f64, f64>("/p", &[1.0], std::time::Duration::from_secs(8)).await.map_err(|e| e.to_string()) }))),
                ("async_client.call_typed_slice_aligned", Box::new(move |a| rt2.block_on(async { AsyncClient::connect(a).await.map_err(|e| e.to_string())?.call_typed_slice_aligned::<_, f64, f64>("/p", &[1.0]).await.map_err(|e| e.to_string()) }))),
                ("async_client.call_typed_slice_aligned_with_timeout", Box::new(move |a| rt2.block_on(async { AsyncClient::connect(a).await.map_err(|e| e.to_string())?.call_typed_slice_aligned_with_timeout::<_, f64, f64>("/p", &[1.0], std::time::Duration::from_secs(8)).await.map_err(|e| e.to_string()) }))),
            ];
            for (who, call) in &entry_points {
                for (label, body, want_ok, what) in &cases {
                    let l = match std::net::TcpListener::bind("127.0.0.1:0") {
                        Ok(l) => l,
                        Err(e) => {
                            rep.inconclusive(format!("reply-probe bind: {e}"));
                            continue;
                        }
                    };
                    let addr = l.local_addr().unwrap();
                    let (label2, body2) = (*label, body.clone());
                    let th = std::thread::spawn(move || -> Option<()> {
                        let (mut s, _) = l.accept().ok()?;
                        s.set_read_timeout(Some(std::time::Duration::from_secs(8))).ok();
                        let mut hdr = [0u8; 48];
                        s.read_exact(&mut hdr).ok()?;
                        let h = crate::oracle::SpecHeader::decode(&hdr);
                        if !h.consistent() || h.length > (1 << 20) {
                            return None;
                        }
                        let mut rest = vec![0u8; (h.length - 48) as usize];
                        s.read_exact(&mut rest).ok()?;
                        let resp = crate::oracle::frame(crate::oracle::SpecHeader { spec: crate::oracle::SPEC, version: 1, id: h.id, query_format: 1, body_format: label2, ..Default::default() }, &rest[..h.query_length as usize], &body2);
                        s.write_all(&resp).ok()?;
                        // keep the socket open until the client is done with it
                        let mut sink = [0u8; 16];
                        let _ = s.read(&mut sink);
                        Some(())
                    });
                    let got = call(addr);
                    let _ = th.join();
                    rep.eval();
                    rep.distinct(&("reply-label", *who, *label, *what));
                    match (&got, *want_ok) {
                        (Ok(v), true) if bits(v) == bits(&xs) => rep.count("client_reply_controls_decoded", 1),
                        (Err(_), false) => rep.count("client_wrong_replies_refused", 1),
                        (Ok(v), false) => rep.violation(
                            format!("C08:client-accepts-wrong-reply:{who}:label{label}"),
                            format!("{who}: a reply labelled body_format={label} carrying {what} was decoded as {} f64 values instead of being refused", v.len()),
                            json!({"entry": who, "label": label, "what": what}),
                        ),
                        (other, true) => rep.violation(format!("C08:client-refuses-good-reply:{who}"), format!("{who}: the correctly labelled BEVE f64 reply gave {:?}", other.as_ref().map(|v| v.len())), json!({"entry": who})),
                    }
                }
            }
        }
        let lg = log.lock().unwrap();
        rep.set("ref_route_invocations", json!(lg.iter().filter(|e| e.0 == "ref").count()));
        rep.set("ref_route_saw_8_aligned_slice", json!(lg.iter().filter(|e| e.0 == "ref" && e.2).count()));
        rep
    }
}
